/-
Property C03 (write-free fragment): closure of bottom-up builds.

"After a bottom-up build in which every resource that changed since all known tasks were last
consistent has been scheduled, every task known to the Pie instance is up to date: requiring any of
them afterwards executes nothing and returns the from-scratch output for the current state.  This
includes tasks that are newly required, or required again, by re-executed tasks during the
bottom-up build."

Setting: every checker semantics `sem` with `StampTotal sem` and `Reflexive sem`; every table of
write-free task programs `body` with `Respects` and `OneChecker`; a `Pie` `p` whose store is
well-formed, `Faithful`, `NoReservedDone`; a list `changed` of reported resources.  Hypotheses on
the starting point (all in `Build/Closure/Defs.lean`):

* `ShallowReq st` — every require dependency of a task with output points to a task with output
  and is accepted by its checker against that output.  Bottom-up building silently assumes this;
  it is destroyed by a partial top-down session (finding K1, kernel-checked below), re-established
  by a bottom-up build (`C03_chain`), and holds of the tasks a returning top-down session made
  consistent (`C03_shallowReq_after_topDown`);
* `Reported st fs changed` — every resource whose recorded **read or write** stamp (of a task with
  output) is not accepted against `fs` is in `changed`.  (With read stamps only the statement is
  false for stores that contain write dependencies left by earlier, non-write-free programs: the
  top-down check looks at write stamps, too.  Stores built by write-free programs contain none.)
* `NoOrphan st` — a node without output has no recorded dependencies (no task was left partially
  executed by an aborted session).  Without it the bottom-up build can execute a task twice
  (`Props/C04Once.lean`), and queued nodes need not have an output.

The invariant (`Build/Closure/Inv.lean`, `CI s ch X`; `ch` = executing stack, `X` = tasks popped
from the queue whose requirers have not been re-checked yet): (I1) every task with output that is
not `SC` (up to require edges into `X`) is queued or in `X`; (I2) every task in `s.consistent` is
`Clean` (its whole cone has outputs, is `SC`, and is neither queued nor in `X`); queued nodes have
an output, the queue is duplicate-free; nodes without output that are not executing have no
edges; the edges of executing tasks are `reserved`, or point to consistent tasks / resources with
accepted stamps; `Faithful`; the stack invariant `BFrames`.
-/
import PieModel.Props.C02
import PieModel.Build.Closure.Sources
import PieModel.Build.Closure.Check
import PieModel.Build.Closure.OrphanTD

namespace PieModel

variable {sem : Sem} {body : Nat → Prog}

/-! ### 1. scheduling establishes (I1) -/

/-- The session state after `create_bottom_up_build` and `schedule_tasks_affected_by` for every
reported resource is `schedAll` (`{ p.newSession with queue := [] }` is `p.newSession`). -/
theorem C03_schedule_state (p : PieSt) (changed : List Nat) :
    changed.foldl (fun s r => scheduleAffectedBy sem s r) { p.newSession with queue := [] } =
      schedAll sem p.newSession changed := rfl

/-- Scheduling only creates resource nodes: outputs and edges are those of `p.store`. -/
theorem C03_schedule_store (p : PieSt) (changed : List Nat) (hw : p.store.WF) :
    ResExt p.store (schedAll sem p.newSession changed).store :=
  (schedAll_newSession sem p changed hw).2.1

/-- **(I1) after scheduling.**  Every task node with an output that is not shallow-consistent
w.r.t. the current resources is in the queue. -/
theorem C03_schedule_establishes_I1 {p : PieSt} {changed : List Nat} (hw : p.store.WF)
    (hn : p.store.NoReservedDone) (hsr : ShallowReq sem p.store)
    (hrep : Reported sem p.store p.fs changed) (n : Nat)
    (ho : (schedAll sem p.newSession changed).store.taskOutput n ≠ none)
    (hsc : ¬ SC sem (schedAll sem p.newSession changed).store p.fs n) :
    n ∈ (schedAll sem p.newSession changed).queue :=
  schedule_establishes_I1 hw hn hsr hrep n ho hsc

section
variable (hst : StampTotal sem) (hrefl : Reflexive sem) (hwfb : WriteFreeBody body)
  (hresp : ∀ t, Respects sem (body t)) (hone : ∀ t, OneChecker (body t))
  {p : PieSt} {changed : List Nat} (hw : p.store.WF) (hf : Faithful sem body p.store)
  (hn : p.store.NoReservedDone) (hno : NoOrphan p.store) (hsr : ShallowReq sem p.store)
  (hrep : Reported sem p.store p.fs changed)

/-! ### 2. the invariant -/

include hw hf hn hno hsr hrep in
/-- The invariant holds when `execute_scheduled` starts (empty stack, nothing exempt). -/
theorem C03_invariant_start :
    CI sem body p.fs (buStart sem p changed) [] [] ∧ TI (buStart sem p changed) [] [] :=
  ci_start hw hf hn hno hsr hrep

include hst hrefl hwfb hone in
/-- **The main induction**: `CI` (with the trace invariant `TI`) is preserved by `buRequire`,
`buMake`, `buExec`, `buExecAndSchedule`, `buRequireNow`, `buRun` when they return (`BuClos`
spells out the six statements with their side conditions), for every fuel and every resource
state `fs`. -/
theorem C03_invariant_preserved (fs : List (Nat × Int)) (f : Nat) : BuClos sem body fs f :=
  buClos hst hwfb hone hrefl f

include hst hrefl hwfb hone in
/-- ... and by `execute_scheduled`, after which the queue is empty. -/
theorem C03_invariant_executeScheduled (fs : List (Nat × Int)) (f : Nat) (s s' : Sess)
    (h : CI sem body fs s [] []) (hti : TI s [] [])
    (hr : buExecuteScheduled sem body f s = (s', .ok ())) :
    CI sem body fs s' [] [] ∧ TI s' [] [] ∧ s'.queue = [] :=
  let ⟨a, b, c, _⟩ := buExecuteScheduled_closure hst hwfb hone hrefl f s h hti s' hr
  ⟨a, b, c⟩

/-! ### 3. closure -/

include hst hrefl hwfb hone hw hf hn hno hsr hrep in
/-- **C03 (closure).**  After a returning bottom-up build the queue is empty, the resources are
untouched, and every task node with an output is shallow-consistent: the set of all task nodes
with output is `Settled` ("recorded stamps are current"). -/
theorem C03_closure (fuel : Nat) (s' : Sess)
    (hr : bottomUpBuild sem body fuel p.newSession changed = (s', .ok ())) :
    s'.queue = [] ∧ s'.fs = p.fs ∧
    (∀ n, s'.store.taskOutput n ≠ none → SC sem s'.store p.fs n) ∧
    Settled sem p.fs s'.store (allOut s'.store) := by
  have h := bottomUpBuild_closed hst hwfb hone hrefl hw hf hn hno hsr hrep fuel s' hr
  exact ⟨h.queue, h.fsEq, h.sc, h.settled⟩

/-! ### 4. the headline -/

include hst hrefl hwfb hresp hone hw hf hn hno hsr hrep in
/-- **C03.**  After a returning bottom-up build in which all changed resources were reported, for
EVERY task `t` whose node has an output: the stored output is the from-scratch output for the
current resources; a top-down `require` of `t` — in the same session `s'`, in a new session on
`s'.toPie`, in fact in any session on that store and resource state — leaves the store
unchanged, emits no `executeStart` event and returns the stored output or runs out of fuel; and
for all sufficiently large fuels it returns the stored output. -/
theorem C03_sources (fuel : Nat) (s' : Sess)
    (hr : bottomUpBuild sem body fuel p.newSession changed = (s', .ok ()))
    (t m : Nat) (o : Int) (ht : s'.store.taskOf m = some t) (ho : s'.store.taskOutput m = some o) :
    Eval sem body p.fs t o ∧
    (∀ fuel₂ (s : Sess), (s = s' ∨ s = s'.toPie.newSession) → ∀ s₂ r,
      sessionRequire sem body fuel₂ s t = (s₂, r) →
      s₂.store = s'.store ∧ s₂.fs = p.fs ∧
      (∃ evs, s₂.trace = s.trace ++ evs ∧ ∀ u, Ev.executeStart u ∉ evs) ∧
      (r = .ok o ∨ r = .abort .outOfFuel)) ∧
    ∃ N, ∀ fuel₂, N ≤ fuel₂ → ∀ s : Sess, (s = s' ∨ s = s'.toPie.newSession) → ∀ s₂ r,
      sessionRequire sem body fuel₂ s t = (s₂, r) → r = .ok o := by
  have h := bottomUpBuild_closed hst hwfb hone hrefl hw hf hn hno hsr hrep fuel s' hr
  obtain ⟨h1, h2, N, h3⟩ := h.sources hst hresp t m o ht ho
  have hs : ∀ s : Sess, (s = s' ∨ s = s'.toPie.newSession) → s.store = s'.store ∧ s.fs = p.fs := by
    rintro s (rfl | rfl)
    · exact ⟨rfl, h.fsEq⟩
    · exact ⟨rfl, h.fsEq⟩
  exact ⟨h1, fun f s hh s₂ r heq => h2 f s (hs s hh).1 (hs s hh).2 s₂ r heq,
    N, fun f hf s hh s₂ r heq => h3 f hf s (hs s hh).1 (hs s hh).2 s₂ r heq⟩

/-! ### 6. chains of bottom-up builds -/

include hst hrefl hwfb hone hw hf hn hno hsr hrep in
/-- **C03 (chain).**  The `Pie` left by a returning bottom-up build satisfies all hypotheses on
the store again — also after arbitrary further external changes, which do not touch the store —
so that only `Reported` (w.r.t. the new resource state) remains the caller's obligation for the
next bottom-up build. -/
theorem C03_chain (fuel : Nat) (s' : Sess)
    (hr : bottomUpBuild sem body fuel p.newSession changed = (s', .ok ())) (p' : PieSt)
    (hp' : p'.store = s'.toPie.store) :
    p'.store.WF ∧ Faithful sem body p'.store ∧ p'.store.NoReservedDone ∧ NoOrphan p'.store ∧
      ShallowReq sem p'.store ∧ (p'.fs = p.fs → Reported sem p'.store p'.fs []) := by
  have h := bottomUpBuild_closed hst hwfb hone hrefl hw hf hn hno hsr hrep fuel s' hr
  rw [hp']
  exact ⟨h.wf, h.faithful, h.nrd, h.orphan, h.shallowReq, fun hfs => by rw [hfs]; exact h.reported_nil⟩

include hst hrefl hwfb hresp hone hw hf hn hno hsr hrep in
/-- Two rounds: batch of changes → bottom-up build → more changes → bottom-up build. -/
theorem C03_two_rounds (fuel : Nat) (s' : Sess)
    (hr : bottomUpBuild sem body fuel p.newSession changed = (s', .ok ())) (p' : PieSt)
    (hp' : p'.store = s'.toPie.store) (changed' : List Nat)
    (hrep' : Reported sem p'.store p'.fs changed') (fuel' : Nat) (s'' : Sess)
    (hr' : bottomUpBuild sem body fuel' p'.newSession changed' = (s'', .ok ()))
    (t m : Nat) (o : Int) (ht : s''.store.taskOf m = some t)
    (ho : s''.store.taskOutput m = some o) : Eval sem body p'.fs t o := by
  obtain ⟨a1, a2, a3, a4, a5, _⟩ := C03_chain hst hrefl hwfb hone hw hf hn hno hsr hrep fuel s' hr p' hp'
  exact (C03_sources hst hrefl hwfb hresp hone a1 a2 a3 a4 a5 hrep' fuel' s'' hr' t m o ht ho).1

end

/-! ### `ShallowReq` after a top-down session -/

section
variable (hst : StampTotal sem) (hrefl : Reflexive sem) (hwfb : WriteFreeBody body)
  (hresp : ∀ t, Respects sem (body t)) (hone : ∀ t, OneChecker (body t))
include hst hrefl hwfb hresp hone

/-- After a returning top-down `Session::require`, every task that the session made consistent
has an output and is shallow-consistent: in particular its require dependencies point to tasks
with output and are accepted against these outputs. -/
theorem C03_shallowReq_after_topDown (fuel : Nat) (s s' : Sess) (root : Nat) (o : Int)
    (h : SInv sem body s.fs s) (hr : sessionRequire sem body fuel s root = (s', .ok o)) :
    ∀ n ∈ s'.consistent, s'.store.taskOutput n ≠ none ∧ SC sem s'.store s'.fs n := by
  obtain ⟨hS, _⟩ := C02_settled hst hwfb hresp hone hrefl fuel s s' root o h hr
  have hw : s'.store.WF :=
    ((sessionRequire_outcome hst hwfb hresp hone fuel s root h).ok _ _ hr).1.inv.wf.store
  intro n hn
  obtain ⟨⟨o', ho'⟩, hd⟩ := hS n hn
  refine ⟨by rw [ho']; simp, fun e he => ?_⟩
  have hsd := hd e.2 (Store.mem_depsFrom_iff.mpr ⟨e.1, he⟩)
  have hok := (hw.mem_outgoingEdges_ok he).2
  obtain ⟨dst, d⟩ := e
  cases d with
  | reserved => exact hsd.elim
  | read r c stp => exact hsd
  | write r c stp => exact hsd
  | require u c stp =>
    obtain ⟨m, o2, h1, _, h3, h4⟩ := hsd
    have : dst = m := hw.taskOf_inj hok h1
    subst this
    exact ⟨o2, h3, h4⟩

/-- If the session made every task with an output consistent, `ShallowReq` holds afterwards. -/
theorem C03_shallowReq_after_full_topDown (fuel : Nat) (s s' : Sess) (root : Nat) (o : Int)
    (h : SInv sem body s.fs s) (hr : sessionRequire sem body fuel s root = (s', .ok o))
    (hall : ∀ n, s'.store.taskOutput n ≠ none → n ∈ s'.consistent) : ShallowReq sem s'.store := by
  intro n hn dst u c stamp he
  exact (C03_shallowReq_after_topDown hst hrefl hwfb hresp hone fuel s s' root o h hr n
    (hall n hn)).2 _ he

end

/-! ### `NoOrphan` holds as long as no session aborted -/

/-- The empty store has no orphan. -/
theorem C03_noOrphan_empty : NoOrphan ({} : Store) := NoOrphan.empty

/-- A returning top-down `Session::require` (of arbitrary task programs) preserves `NoOrphan`;
so does a returning list of requires.  (A returning bottom-up build does, too: `C03_chain`;
external changes do not touch the store.) -/
theorem C03_noOrphan_after_topDown (sem : Sem) (body : Nat → Prog) (fuel : Nat) {s s' : Sess}
    (h : SessWF s) (hno : NoOrphan s.store) :
    (∀ t o, sessionRequire sem body fuel s t = (s', .ok o) → NoOrphan s'.store) ∧
    (∀ ts os, requireAll sem body fuel s ts = (s', .ok os) → NoOrphan s'.store) :=
  ⟨fun _ _ hr => sessionRequire_noOrphan fuel h hno hr,
    fun ts _ hr => requireAll_noOrphan fuel ts h hno hr⟩

/-! ### non-vacuity: a write-free diamond

Task 3 (`U`) reads source 1; tasks 1 (`A`) and 2 (`B`) require `U`; task 0 (the top) requires `A`
and `B`.  All dependencies use the exact checkers (id 0) of `reflSem`. -/

def c03Body : Nat → Prog
  | 0 => .req 1 0 (fun a => .req 2 0 (fun b => .ret (a + b)))
  | 1 => .req 3 0 (fun u => .ret (u + 1))
  | 2 => .req 3 0 (fun u => .ret (u + 2))
  | 3 => .read 1 0 (fun x => match x with | .ok (some v) => .ret v | _ => .ret 0)
  | _ => .ret 7

theorem c03Body_writeFree : WriteFreeBody c03Body := by
  intro t
  match t with
  | 0 => exact .req _ _ _ (fun a => .req _ _ _ (fun b => .ret _))
  | 1 => exact .req _ _ _ (fun u => .ret _)
  | 2 => exact .req _ _ _ (fun u => .ret _)
  | 3 =>
    refine .read _ _ _ (fun x => ?_)
    split <;> exact .ret _
  | _ + 4 => exact .ret _

theorem c03Body_respects : ∀ t, Respects reflSem (c03Body t) := by
  intro t
  match t with
  | 0 =>
    exact ⟨fun o o' h => by rw [reflSem_ocheck0 h],
      fun o => ⟨fun o1 o1' h => by rw [reflSem_ocheck0 h], fun _ => trivial⟩⟩
  | 1 => exact ⟨fun o o' h => by rw [reflSem_ocheck0 h], fun o => trivial⟩
  | 2 => exact ⟨fun o o' h => by rw [reflSem_ocheck0 h], fun o => trivial⟩
  | 3 =>
    refine ⟨fun v v' s h1 h2 => by rw [reflSem_rcheck0 h1 h2], fun x => ?_⟩
    dsimp only
    split <;> trivial
  | _ + 4 => trivial

theorem c03Body_oneChecker : ∀ t, OneChecker (c03Body t) := by
  intro t
  match t with
  | 0 => simp [OneChecker, c03Body, OneCk]
  | 1 => simp [OneChecker, c03Body, OneCk]
  | 2 => simp [OneChecker, c03Body, OneCk]
  | 3 =>
    refine ⟨fun c' h => (nomatch h), fun x => ?_⟩
    dsimp only
    split <;> trivial
  | _ + 4 => trivial

/-- Source 1 holds 5. -/
def c03Pie0 : PieSt := { fs := [(1, 5)] }

/-- First build, top-down: the top is required. -/
def c03Run1 := requireAll reflSem c03Body 30 c03Pie0.newSession [0]

/-- Then source 1 is set to 6. -/
def c03Pie1 : PieSt := c03Run1.1.toPie.setContent 1 (some 6)

/-- The bottom-up build with `changed = [1]`. -/
def c03Run2 := bottomUpBuild reflSem c03Body 30 c03Pie1.newSession [1]

/-- The tasks executed in a tracker stream, in order. -/
def execsOf (tr : List Ev) : List Nat :=
  tr.filterMap fun e => match e with | .executeStart t => some t | _ => none

/-- The first build executes all four tasks and returns 13; the bottom-up build re-executes all
four (`U` first) and empties the queue. -/
example : c03Run1.2.toOption = some [13] ∧ execsOf c03Run1.1.trace = [0, 1, 3, 2] ∧
    c03Run2.2.toOption = some () ∧ execsOf c03Run2.1.trace = [3, 2, 1, 0] ∧
    c03Run2.1.queue = [] := by with_unfolding_all decide

/-- Afterwards, requiring any of the four tasks — in the same session or in a new one —
executes nothing and returns the from-scratch output for source 1 = 6. -/
example :
    ([0, 1, 2, 3].map fun t =>
      ((sessionRequire reflSem c03Body 30 c03Run2.1.toPie.newSession t).2.toOption,
       execsOf (sessionRequire reflSem c03Body 30 c03Run2.1.toPie.newSession t).1.trace,
       (sessionRequire reflSem c03Body 30 c03Run2.1 t).2.toOption,
       (execsOf (sessionRequire reflSem c03Body 30 c03Run2.1 t).1.trace).length))
      = [(some 15, [], some 15, 4), (some 7, [], some 7, 4), (some 8, [], some 8, 4),
         (some 6, [], some 6, 4)] := by with_unfolding_all decide

theorem c03Pie1_store : c03Pie1.store = c03Run1.1.store := C01_setContent_store _ _ _

/-- The hypotheses of C03 hold of `c03Pie1`. -/
theorem c03Pie1_hyps :
    c03Pie1.store.WF ∧ Faithful reflSem c03Body c03Pie1.store ∧ c03Pie1.store.NoReservedDone ∧
    NoOrphan c03Pie1.store ∧ ShallowReq reflSem c03Pie1.store ∧
    Reported reflSem c03Pie1.store c03Pie1.fs [1] := by
  have h1 := C01_faithful_session reflSem_stampTotal c03Body_writeFree c03Body_respects
    c03Body_oneChecker 30 c03Pie0 Store.WF.empty Faithful.empty [0]
  have h2 := (requireAll_sessOK reflSem c03Body 30
    (sessOK_newSession c03Pie0 Store.WF.empty Store.NoReservedDone.empty) [0]).done.nrd
  rw [c03Pie1_store]
  exact ⟨h1.1, h1.2, h2, noOrphan_of_B (by with_unfolding_all decide),
    shallowReq_of_B (by with_unfolding_all decide), reported_of_B (by with_unfolding_all decide)⟩

theorem c03Run2_ok : bottomUpBuild reflSem c03Body 30 c03Pie1.newSession [1] = (c03Run2.1, .ok ()) := by
  have h2 : c03Run2.2 = .ok () := Res.eq_ok_of_toOption (by with_unfolding_all decide)
  rw [← h2]; rfl

/-- The theorems applied to the run: the state after the bottom-up build is closed, ... -/
example : c03Run2.1.queue = [] ∧ Settled reflSem c03Pie1.fs c03Run2.1.store (allOut c03Run2.1.store) :=
  have h := c03Pie1_hyps
  have c := C03_closure reflSem_stampTotal reflSem_reflexive c03Body_writeFree c03Body_oneChecker
    h.1 h.2.1 h.2.2.1 h.2.2.2.1 h.2.2.2.2.1 h.2.2.2.2.2 30 c03Run2.1 c03Run2_ok
  ⟨c.1, c.2.2.2⟩

/-- ... 15 is the from-scratch output of the top for source 1 = 6, and no session on the
resulting `Pie` executes anything when requiring it, whatever the fuel. -/
example : Eval reflSem c03Body [(1, 6)] 0 15 ∧
    ∀ fuel₂ s₂ r, sessionRequire reflSem c03Body fuel₂ c03Run2.1.toPie.newSession 0 = (s₂, r) →
      ∀ u, Ev.executeStart u ∉ s₂.trace := by
  have h := c03Pie1_hyps
  obtain ⟨h1, h2, _⟩ := C03_sources reflSem_stampTotal reflSem_reflexive c03Body_writeFree
    c03Body_respects c03Body_oneChecker h.1 h.2.1 h.2.2.1 h.2.2.2.1 h.2.2.2.2.1 h.2.2.2.2.2 30
    c03Run2.1 c03Run2_ok 0 0 15 (by with_unfolding_all decide) (by with_unfolding_all decide)
  have hfs : c03Pie1.fs = [(1, 6)] := by with_unfolding_all decide
  rw [hfs] at h1
  refine ⟨h1, fun fuel₂ s₂ r heq u hu => ?_⟩
  obtain ⟨_, _, ⟨evs, he, hne⟩, _⟩ := h2 fuel₂ _ (.inr rfl) s₂ r heq
  rw [he] at hu
  exact hne u (by simpa [PieSt.newSession] using hu)

/-! ### finding K1: `ShallowReq` cannot be dropped

After the change of source 1, a top-down session requires only `A` (task 1): `U` is re-executed
with a new output, `B` is not visited.  All hypotheses except `ShallowReq` hold of the resulting
`Pie`; the bottom-up build with ALL changes reported finds nothing to do, and `B` is stale: a
later `require` of `B` executes it. -/

def c03K1Run := requireAll reflSem c03Body 30 c03Pie1.newSession [1]
def c03K1Pie : PieSt := c03K1Run.1.toPie
def c03K1Bu := bottomUpBuild reflSem c03Body 30 c03K1Pie.newSession [1]

example :
    -- the partial top-down session re-executes `U` and `A`
    execsOf c03K1Run.1.trace = [3, 1] ∧
    -- the store satisfies `NoOrphan` and `Reported` (for the same reported change), not `ShallowReq`
    noOrphanB c03K1Pie.store = true ∧ reportedB reflSem c03K1Pie.store c03K1Pie.fs [1] = true ∧
    shallowReqB reflSem c03K1Pie.store = false ∧
    -- the bottom-up build returns without executing anything
    c03K1Bu.2.toOption = some () ∧ execsOf c03K1Bu.1.trace = [] ∧
    -- but `B` is stale: requiring it afterwards executes it (stored 7, from-scratch 8)
    c03K1Bu.1.store.taskOf 4 = some 2 ∧ c03K1Bu.1.store.taskOutput 4 = some 7 ∧
    (sessionRequire reflSem c03Body 30 c03K1Bu.1.toPie.newSession 2).2.toOption = some 8 ∧
    execsOf (sessionRequire reflSem c03Body 30 c03K1Bu.1.toPie.newSession 2).1.trace = [2] := by
  with_unfolding_all decide

/-- The same as statements about the hypotheses: everything but `ShallowReq` holds. -/
example : c03K1Pie.store.WF ∧ Faithful reflSem c03Body c03K1Pie.store ∧
    c03K1Pie.store.NoReservedDone ∧ NoOrphan c03K1Pie.store ∧
    Reported reflSem c03K1Pie.store c03K1Pie.fs [1] ∧ ¬ ShallowReq reflSem c03K1Pie.store := by
  have hh := c03Pie1_hyps
  have h1 := C01_faithful_session reflSem_stampTotal c03Body_writeFree c03Body_respects
    c03Body_oneChecker 30 c03Pie1 hh.1 hh.2.1 [1]
  have h2 := (requireAll_sessOK reflSem c03Body 30
    (sessOK_newSession c03Pie1 hh.1 hh.2.2.1) [1]).done.nrd
  exact ⟨h1.1, h1.2, h2, noOrphan_of_B (by with_unfolding_all decide),
    reported_of_B (by with_unfolding_all decide),
    not_shallowReq_of_B (by with_unfolding_all decide)⟩

/-! ### why `Reported` covers write dependencies, too

`ReportedRead` is `Reported` for read dependencies only.  It is not enough on a store that contains
a write dependency (left by an earlier, non-write-free program): the top-down check validates
write stamps, too.  Task 9 below once wrote 1 to resource 5; its program is now `ret 0` (write-free,
and the store is `Faithful` for it); resource 5 is changed externally and — the task having no
*read* dependency — nothing needs to be reported under `ReportedRead`.  The bottom-up build does
nothing, and a later `require` of task 9 executes it. -/

def ReportedRead (sem : Sem) (st : Store) (fs : List (Nat × Int)) (changed : List Nat) : Prop :=
  ∀ n, st.taskOutput n ≠ none → ∀ dst r c stamp, (dst, Dep.read r c stamp) ∈ st.g.outgoingEdges n →
    sem.rcheck c (aget fs r) stamp ≠ .ok true → r ∈ changed

def c03WBody1 : Nat → Prog := fun _ => .write 5 0 (some 1) (fun _ => .ret 0)
def c03WBody2 : Nat → Prog := fun _ => .ret 0
def c03WRun1 := requireAll reflSem c03WBody1 10 ({} : PieSt).newSession [9]
def c03WPie : PieSt := c03WRun1.1.toPie.setContent 5 (some 2)
def c03WBu := bottomUpBuild reflSem c03WBody2 10 c03WPie.newSession []

example :
    WriteFreeBody c03WBody2 ∧ (∀ t, Respects reflSem (c03WBody2 t)) ∧
    (∀ t, OneChecker (c03WBody2 t)) ∧
    c03WPie.store.WF ∧ Faithful reflSem c03WBody2 c03WPie.store ∧ c03WPie.store.NoReservedDone ∧
    NoOrphan c03WPie.store ∧ ShallowReq reflSem c03WPie.store ∧
    ReportedRead reflSem c03WPie.store c03WPie.fs [] ∧
    -- the bottom-up build returns, executing nothing
    c03WBu.2.toOption = some () ∧ execsOf c03WBu.1.trace = [] ∧
    -- but requiring the known task 9 (node 0, output 0) afterwards executes it
    c03WBu.1.store.taskOf 0 = some 9 ∧ c03WBu.1.store.taskOutput 0 = some 0 ∧
    execsOf (sessionRequire reflSem c03WBody2 10 c03WBu.1.toPie.newSession 9).1.trace = [9] := by
  have hst : c03WPie.store = c03WRun1.1.store := C01_setContent_store _ _ _
  have hwf : c03WRun1.1.store.WF :=
    (requireAll_ext reflSem c03WBody1 10 [9] (C19_newSession_wf ({} : PieSt) Store.WF.empty)).wf.store
  have hnrd := (requireAll_sessOK reflSem c03WBody1 10
    (sessOK_newSession ({} : PieSt) Store.WF.empty Store.NoReservedDone.empty) [9]).done.nrd
  have hlive : liveNodes c03WRun1.1.store = [0, 1] := by with_unfolding_all decide
  have hcases : ∀ n, n = 0 ∨ n = 1 ∨ c03WRun1.1.store.taskOutput n = none := by
    intro n
    by_cases hl : n ∈ liveNodes c03WRun1.1.store
    · rw [hlive] at hl
      simp only [List.mem_cons, List.not_mem_nil, or_false] at hl
      rcases hl with hl | hl
      · exact .inl hl
      · exact .inr (.inl hl)
    · exact .inr (.inr (not_live_facts hl).1)
  have hout1 : c03WRun1.1.store.taskOutput 1 = none := by with_unfolding_all decide
  rw [hst]
  refine ⟨fun _ => .ret _, fun _ => trivial, fun _ => trivial, hwf, ?_, hnrd,
    noOrphan_of_B (by with_unfolding_all decide), shallowReq_of_B (by with_unfolding_all decide), ?_,
    by with_unfolding_all decide, by with_unfolding_all decide, by with_unfolding_all decide,
    by with_unfolding_all decide, by with_unfolding_all decide⟩
  · intro n t v _ hv
    rcases hcases n with rfl | rfl | hn
    · have h0 : c03WRun1.1.store.taskOutput 0 = some 0 := by with_unfolding_all decide
      rw [h0] at hv; cases hv
      exact ⟨rfl, by with_unfolding_all decide⟩
    · rw [hout1] at hv; cases hv
    · rw [hn] at hv; cases hv
  · intro n hn dst r c stamp hp _
    rcases hcases n with rfl | rfl | hn'
    · have h0 : c03WRun1.1.store.g.outgoingEdges 0 = [(1, .write 5 0 (.optInt (some 1)))] := by
        with_unfolding_all decide
      rw [h0] at hp
      simp at hp
    · exact absurd hout1 hn
    · exact absurd hn' hn

end PieModel
