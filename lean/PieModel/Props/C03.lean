import PieModel.Build.Pie
namespace PieModel
theorem C03_placeholder : True := trivial
end PieModel
