/-
Property C01 in full over MIXED histories: external changes, top-down sessions and BOTTOM-UP
builds (told any `changed` set, complete or not), any of them aborted at any point.

"Whenever requiring a task in a session returns, the returned output, and the content of every
resource written by a task executed or reused for it, equal what executing the same tasks from
scratch against the current state of all resources would produce — … whatever was built before on
the same `Pie` instance."

**Result.**

1. Under the hypotheses of `C01_full_history` alone (`StampTotal`, `WellFormedBody`, `Respects`,
   `OneChecker`, `WriteExact`) the statement is FALSE once bottom-up builds are part of "whatever
   was built before": `C01_pieInv_mixed_history_stmt`/`C01_full_mixed_history_stmt` below are
   refuted by the kernel-checked counterexample of `Props/C01FullMixedCex.lean` (a non-reflexive
   resource checker — the harness' `FailWhen` — together with an aborted session that leaves a task
   without output but with a stale read dependency, a bottom-up build told an incomplete `changed`
   set, and a task that requires the same task twice).
2. With REFLEXIVE checkers (`Reflexive sem`: a checker accepts the stamp it just made — true of
   all built-in checkers of pie) the statement holds in full, for every mixed history:
   `C01_pieInv_mixed_history`, `C01_full_mixed_history`,
   `C01_full_mixed_history_equals_clean_build`, `C19_full_results_after_abort_mixed`.

Why reflexivity: in a bottom-up build a task that is marked consistent can be executed again
(`Props/C04Once.lean`: a task without output is executed at once when required and stays in the
queue).  Its record is exactly current (`AllCur`), so with `Respects`, `WriteExact` and reflexive
checkers the second execution reproduces the first (`flatExec`) and schedules no consistent or
executing task; hence no consistent task is ever added to the queue (`BI.sched`), the outputs of
consistent tasks never change during a build, and a repeated `require` of the same task by one
execution records the stamp it recorded the first time.  The invariant is `BI`
(`Build/BuW/Inv.lean`); the proofs are in `Build/BuW/*.lean`.

3. WITHOUT any assumption on the checkers (beyond total stampers), the statement holds in full,
   for every mixed history, for programs that access every dependency target at most once per
   execution path (`OneAccess`: no task is required twice, no resource read twice on one path):
   `C01_pieInv_mixed_history_oneAccess`, `C01_full_mixed_history_oneAccess`, …  Here no invariant
   on `consistent` is needed at all: no edge of the executing task is ever overwritten, so its
   record is the ordered list of its accesses with the stamps of the values it saw, whatever
   stale or changing outputs `make_task_consistent` returns.
   So each of the two ingredients of the counterexample (a non-reflexive checker; a repeated
   require) is harmless alone.

Nothing is claimed for the outputs of the requires that follow a bottom-up build in the same
session (they may be stale if the build was told an incomplete `changed` set) — only that they,
too, preserve the invariants.
-/
import PieModel.Build.BuW.History
import PieModel.Build.BuW.StaticHistory
import PieModel.Props.C01FullMixedCex

namespace PieModel

variable {ro : Roles} {sem : Sem} {body : Nat → Prog}

/-! ### the statements without `Reflexive` — false -/

/-- The invariant part of C01 in full over mixed histories, under the hypotheses of
`C01_full_history`. -/
def C01_pieInv_mixed_history_stmt : Prop :=
  ∀ (ro : Roles) (sem : Sem) (body : Nat → Prog), StampTotal sem → WellFormedBody ro body →
    (∀ t, Respects sem (body t)) → (∀ t, OneChecker (body t)) → (∀ t, WriteExact sem (body t)) →
    ∀ (fuel : Nat) (steps : List HStep), PieInvW ro sem body (runHistory sem body fuel steps)

/-- C01 itself over mixed histories, under the hypotheses of `C01_full_history`: a top-down
session after any mixed history agrees with the clean build on the same resources. -/
def C01_full_mixed_history_stmt : Prop :=
  ∀ (ro : Roles) (sem : Sem) (body : Nat → Prog), StampTotal sem → WellFormedBody ro body →
    (∀ t, Respects sem (body t)) → (∀ t, OneChecker (body t)) → (∀ t, WriteExact sem (body t)) →
    ∀ (fuel fuel' : Nat) (steps : List HStep) (roots : List Nat) (s' sc : Sess) (os os' : List Int),
      requireAll sem body fuel (runHistory sem body fuel steps).newSession roots = (s', .ok os) →
      cleanBuild sem body fuel' (runHistory sem body fuel steps).fs roots = (sc, .ok os') →
      os = os'

/-- Both are false (counterexample: `mixedCexBody`, `mixedCexHistory`, `totalSem`). -/
theorem C01_mixed_history_stmts_false :
    ¬ C01_pieInv_mixed_history_stmt ∧ ¬ C01_full_mixed_history_stmt :=
  ⟨C01_pieInv_mixed_history_false, C01_full_mixed_history_false⟩

/-! ### with reflexive checkers -/

section
variable (hst : StampTotal sem) (hrefl : Reflexive sem) (hwf : WellFormedBody ro body)
  (hresp : ∀ t, Respects sem (body t)) (hone : ∀ t, OneChecker (body t))
  (hwe : ∀ t, WriteExact sem (body t))
include hst hrefl hwf hresp hone hwe

/-! #### 1. every function preserves the store invariant, whatever the result -/

/-- The six mutually recursive functions of the bottom-up context (`buRequire`, `buMake`,
`buExec`, `buExecAndSchedule`, `buRequireNow`, `buRun`): from a state satisfying the build
invariant `BI` (for the executing stack at the call) the store is faithful (`FaithfulO`) whatever
the result, and if the call returns the invariant holds again, the consistent tasks kept their
records, and `buRun` extended the record of the executing task by an ordered replay of its
remaining body.  (The statement of the joint induction, `BuR` in `Build/BuW/Induct.lean`.) -/
theorem C01_mixed_bottomUp_functions (fuel : Nat) : BuR ro sem body fuel :=
  buR hst hrefl hwf hresp hone hwe fuel

omit hrefl hresp hwe in
/-- The five mutually recursive functions of the top-down context started from a session whose
`consistent` set is arbitrary (the requires that follow a bottom-up build in the same session):
same guarantees (`TdR` in `Build/BuW/TdInduct.lean`).  No reflexivity is needed here: a top-down
function never executes a consistent task. -/
theorem C01_mixed_topDown_functions (fuel : Nat) : TdR ro sem body fuel :=
  tdR hst hwf hone fuel

/-- `execute_scheduled`, `update_affected_tasks` and the whole bottom-up build of a session in
which nothing is consistent yet (a new session): faithful store whatever the result; if the build
returns, the invariant holds with nothing executing and the queue is empty. -/
theorem C01_mixed_bottomUp_entry_points (fuel : Nat) (s : Sess) :
    (BI ro sem body s [] [] [] →
      FaithfulO sem body (buExecuteScheduled sem body fuel s).1.store ∧
      FaithfulO sem body (updateAffectedTasks sem body fuel s).1.store) ∧
    (WInv ro sem body s → s.consistent = [] → s.cur = none → ∀ changed,
      FaithfulO sem body (bottomUpBuild sem body fuel s changed).1.store ∧
      ∀ s', bottomUpBuild sem body fuel s changed = (s', .ok ()) →
        BI ro sem body s' [] [] [] ∧ s'.queue = []) :=
  ⟨fun h => ⟨(buExecuteScheduled_bi hst hrefl hwf hresp hone hwe fuel s h).faithful,
      (updateAffectedTasks_bi hst hrefl hwf hresp hone hwe fuel s h).faithful⟩,
    fun h hc hcur changed =>
      ⟨(bottomUpBuild_bi hst hrefl hwf hresp hone hwe fuel s h hc hcur changed).faithful,
        fun s' heq => (bottomUpBuild_bi hst hrefl hwf hresp hone hwe fuel s h hc hcur changed).ok
          s' () heq⟩⟩

omit hrefl hresp hwe in
/-- `Session::require` and a list of requires from a state left by a bottom-up build. -/
theorem C01_mixed_requires_after_bottomUp (fuel : Nat) (s : Sess)
    (h : BI ro sem body s [] [] []) (hq : s.queue = []) :
    (∀ t, FaithfulO sem body (sessionRequire sem body fuel s t).1.store) ∧
    (∀ ts, FaithfulO sem body (requireAll sem body fuel s ts).1.store) :=
  ⟨fun t => (sessionRequire_bi hst hwf hone fuel s t h hq).faithful,
    fun ts => (requireAll_bi hst hwf hone fuel ts s h hq).faithful⟩

/-- A bottom-up build on a `Pie` satisfying the invariants (`Store.WF`, `RolesInv`, `FaithfulO`,
unique keys of the resource map) leaves such a `Pie` — returned or aborted, whatever `changed`. -/
theorem C01_pieInv_bottomUpBuild (fuel : Nat) (p : PieSt) (h : PieInvW ro sem body p)
    (changed : List Nat) :
    PieInvW ro sem body (bottomUpBuild sem body fuel p.newSession changed).1.toPie :=
  h.bottomUpBuild hst hrefl hwf hresp hone hwe fuel changed

/-- Every step of a mixed history keeps the invariants. -/
theorem C01_pieInv_runStep (fuel : Nat) (p : PieSt) (h : PieInvW ro sem body p) (st : HStep) :
    PieInvW ro sem body (runStep sem body fuel p st) :=
  h.runStep hst hrefl hwf hresp hone hwe fuel st

/-! #### 2. the invariants after every mixed history -/

/-- **After every mixed history** — external changes, top-down sessions, bottom-up builds with any
`changed` set followed by requires, any of them aborted — run from the empty `Pie`, the invariants
of C01 in full hold; for every fuel. -/
theorem C01_pieInv_mixed_history (fuel : Nat) (steps : List HStep) :
    PieInvW ro sem body (runHistory sem body fuel steps) :=
  pieInv_mixed_history hst hrefl hwf hresp hone hwe fuel steps

/-! #### 3. C01 for the top-down sessions of a mixed history -/

/-- **C01 over mixed histories.**  `runStepsM` runs the history like `runHistory` and logs, for
every top-down session (`.session roots`) that returned, the resources before, the roots, the
outputs and the resources after.  Every logged session has the from-scratch outputs and leaves the
from-scratch resource state — whatever was built (or aborted) before, bottom-up builds included. -/
theorem C01_full_mixed_history (fuel : Nat) (steps : List HStep) :
    (runStepsM sem body fuel {} steps).1 = runHistory sem body fuel steps ∧
    PieInvW ro sem body (runStepsM sem body fuel {} steps).1 ∧
    ∀ e ∈ (runStepsM sem body fuel {} steps).2,
      List.Forall₂ (fun t o => ∃ ws, Den ro sem body e.before t (o, ws)) e.roots e.outs ∧
      ∀ r, aget e.after r =
        overlay ro sem body e.before (Demanded ro sem body e.before e.roots) r := by
  obtain ⟨h1, h2⟩ := runStepsM_sound hst hrefl hwf hresp hone hwe fuel steps {} PieInvW.empty
  exact ⟨runStepsM_history sem body fuel steps, h1, fun e he => ⟨(h2 e he).1, (h2 e he).2.1⟩⟩

/-- ... and agrees with the clean build of the same roots on the resource state it started with
(whenever the latter returns, for any fuel). -/
theorem C01_full_mixed_history_equals_clean_build (fuel fuel' : Nat) (steps : List HStep)
    (e : SessLog) (he : e ∈ (runStepsM sem body fuel {} steps).2) (sc : Sess) (os' : List Int)
    (hc : cleanBuild sem body fuel' e.before e.roots = (sc, .ok os')) :
    e.outs = os' ∧ ∀ r, aget e.after r = aget sc.fs r := by
  obtain ⟨_, h2⟩ := runStepsM_sound hst hrefl hwf hresp hone hwe fuel steps {} PieInvW.empty
  obtain ⟨h1, h2', _, hn⟩ := h2 e he
  obtain ⟨h3, h4⟩ := C01_clean_build_den hst hwf hresp hone hwe fuel' e.before hn e.roots sc os' hc
  exact ⟨forall₂_den_unique h1 h3, fun r => by rw [h2' r, h4 r]⟩

/-- Every task executed by a logged session is demanded (C02, minimality). -/
theorem C02_minimal_mixed_history (fuel : Nat) (steps : List HStep) (e : SessLog)
    (he : e ∈ (runStepsM sem body fuel {} steps).2) (t : Nat) (ht : Ev.executeStart t ∈ e.trace) :
    Demanded ro sem body e.before e.roots t :=
  ((runStepsM_sound hst hrefl hwf hresp hone hwe fuel steps {} PieInvW.empty).2 e he).2.2.1 t ht

/-! #### 4. the C19 reading -/

/-- **C19, full results after aborts, mixed histories.**  After every mixed history — whatever
aborted before: top-down sessions, bottom-up builds (task panic, out of fuel, …) — every top-down
session that returns yields the from-scratch outputs and resource contents, and agrees with the
clean build of the same roots on the same resources. -/
theorem C19_full_results_after_abort_mixed (fuel : Nat) (steps : List HStep) (roots : List Nat)
    (s' : Sess) (os : List Int)
    (hr : requireAll sem body fuel (runHistory sem body fuel steps).newSession roots =
      (s', .ok os)) :
    List.Forall₂ (fun t o => ∃ ws, Den ro sem body (runHistory sem body fuel steps).fs t (o, ws))
      roots os ∧
    (∀ r, aget s'.fs r = overlay ro sem body (runHistory sem body fuel steps).fs
      (Demanded ro sem body (runHistory sem body fuel steps).fs roots) r) ∧
    PieInvW ro sem body s'.toPie ∧
    ∀ (fuel' : Nat) (sc : Sess) (os' : List Int),
      cleanBuild sem body fuel' (runHistory sem body fuel steps).fs roots = (sc, .ok os') →
      os = os' ∧ ∀ r, aget s'.fs r = aget sc.fs r := by
  have hp := C01_pieInv_mixed_history hst hrefl hwf hresp hone hwe fuel steps
  obtain ⟨h1, h2, h3⟩ := C01_full_session hst hwf hresp hone hwe fuel _ hp roots s' os hr
  exact ⟨h1, h2, h3, fun fuel' sc os' hc =>
    C01_full_equals_clean_build hst hwf hresp hone hwe fuel fuel' _ hp roots s' sc os os' hr hc⟩

end

/-! ### without assumptions on the checkers: programs without repeated accesses -/

section
variable (hst : StampTotal sem) (hwf : WellFormedBody ro body) (hone : ∀ t, OneAccess (body t))
include hst hwf hone

/-- Every function of the bottom-up context (`SuR`, `Build/BuW/StaticBU.lean`) and of the top-down
context started from ANY session state (`StR`, `Build/BuW/StaticTD.lean`) preserves the weak
invariant `WInv` (`SessWF`, `RolesInv`, `FaithfulO`, unique keys, the executing task has no
output); the store is faithful whatever the result. -/
theorem C01_mixed_functions_oneAccess (fuel : Nat) :
    SuR ro sem body fuel ∧ StR ro sem body fuel :=
  ⟨suR hst hwf hone fuel, stR hst hwf hone fuel⟩

/-- A bottom-up build from any session state satisfying the weak invariant — any `consistent`
set, any `changed` set — and the requires of any session: faithful store whatever the result. -/
theorem C01_mixed_entry_points_oneAccess (fuel : Nat) (s : Sess) (h : WInv ro sem body s) :
    (∀ changed, FaithfulO sem body (bottomUpBuild sem body fuel s changed).1.store) ∧
    (∀ ts, FaithfulO sem body (requireAll sem body fuel s ts).1.store) :=
  ⟨fun changed => (bottomUpBuild_static hst hwf hone fuel s h changed).faithful,
    fun ts => (requireAll_static hst hwf hone fuel ts s h).faithful⟩

/-- Every step of a mixed history keeps the invariants. -/
theorem C01_pieInv_runStep_oneAccess (fuel : Nat) (p : PieSt) (h : PieInvW ro sem body p)
    (st : HStep) : PieInvW ro sem body (runStep sem body fuel p st) :=
  h.runStep_static hst hwf hone fuel st

/-- **After every mixed history** the invariants of C01 in full hold — for ANY checker semantics
with total stampers (reflexive or not, respected or not), if no task accesses a dependency target
twice on one execution path. -/
theorem C01_pieInv_mixed_history_oneAccess (fuel : Nat) (steps : List HStep) :
    PieInvW ro sem body (runHistory sem body fuel steps) :=
  pieInv_mixed_history_static hst hwf hone fuel steps

end

section
variable (hst : StampTotal sem) (hwf : WellFormedBody ro body) (hone : ∀ t, OneAccess (body t))
  (hresp : ∀ t, Respects sem (body t)) (hwe : ∀ t, WriteExact sem (body t))
include hst hwf hone hresp hwe

/-- **C01 over mixed histories, programs without repeated accesses** (no reflexivity). -/
theorem C01_full_mixed_history_oneAccess (fuel : Nat) (steps : List HStep) :
    (runStepsM sem body fuel {} steps).1 = runHistory sem body fuel steps ∧
    PieInvW ro sem body (runStepsM sem body fuel {} steps).1 ∧
    ∀ e ∈ (runStepsM sem body fuel {} steps).2,
      List.Forall₂ (fun t o => ∃ ws, Den ro sem body e.before t (o, ws)) e.roots e.outs ∧
      ∀ r, aget e.after r =
        overlay ro sem body e.before (Demanded ro sem body e.before e.roots) r := by
  obtain ⟨h1, h2⟩ := runStepsM_sound_static hst hwf hone hresp hwe fuel steps {} PieInvW.empty
  exact ⟨runStepsM_history sem body fuel steps, h1, fun e he => ⟨(h2 e he).1, (h2 e he).2.1⟩⟩

theorem C01_full_mixed_history_equals_clean_build_oneAccess (fuel fuel' : Nat)
    (steps : List HStep) (e : SessLog) (he : e ∈ (runStepsM sem body fuel {} steps).2) (sc : Sess)
    (os' : List Int) (hc : cleanBuild sem body fuel' e.before e.roots = (sc, .ok os')) :
    e.outs = os' ∧ ∀ r, aget e.after r = aget sc.fs r := by
  have hone' : ∀ t, OneChecker (body t) := fun t => (hone t).oneChecker (hwf t)
  obtain ⟨_, h2⟩ := runStepsM_sound_static hst hwf hone hresp hwe fuel steps {} PieInvW.empty
  obtain ⟨h1, h2', _, hn⟩ := h2 e he
  obtain ⟨h3, h4⟩ := C01_clean_build_den hst hwf hresp hone' hwe fuel' e.before hn e.roots sc os' hc
  exact ⟨forall₂_den_unique h1 h3, fun r => by rw [h2' r, h4 r]⟩

/-- **C19, full results after aborts, mixed histories, programs without repeated accesses.** -/
theorem C19_full_results_after_abort_mixed_oneAccess (fuel : Nat) (steps : List HStep)
    (roots : List Nat) (s' : Sess) (os : List Int)
    (hr : requireAll sem body fuel (runHistory sem body fuel steps).newSession roots =
      (s', .ok os)) :
    List.Forall₂ (fun t o => ∃ ws, Den ro sem body (runHistory sem body fuel steps).fs t (o, ws))
      roots os ∧
    (∀ r, aget s'.fs r = overlay ro sem body (runHistory sem body fuel steps).fs
      (Demanded ro sem body (runHistory sem body fuel steps).fs roots) r) ∧
    PieInvW ro sem body s'.toPie ∧
    ∀ (fuel' : Nat) (sc : Sess) (os' : List Int),
      cleanBuild sem body fuel' (runHistory sem body fuel steps).fs roots = (sc, .ok os') →
      os = os' ∧ ∀ r, aget s'.fs r = aget sc.fs r := by
  have hone' : ∀ t, OneChecker (body t) := fun t => (hone t).oneChecker (hwf t)
  have hp := C01_pieInv_mixed_history_oneAccess hst hwf hone fuel steps
  obtain ⟨h1, h2, h3⟩ := C01_full_session hst hwf hresp hone' hwe fuel _ hp roots s' os hr
  exact ⟨h1, h2, h3, fun fuel' sc os' hc =>
    C01_full_equals_clean_build hst hwf hresp hone' hwe fuel fuel' _ hp roots s' sc os os' hr hc⟩

end

/-! ### 5. non-vacuity

The program and the history of the counterexample, with the reflexive checker table `reflSem` and
the exact checker (id 0) at the read of the generated resource 10 instead of `FailWhen(7)`:
six tasks, a writer (`Z` = task 5 writes resource 10) and a reader (`M` = task 4), a task that
requires the same task twice (`N` = task 1).  History: a top-down session; two ABORTED top-down
sessions (leaving `M` and `Z` without output, `Z` with a stale read dependency); external
changes; a bottom-up build told an INCOMPLETE `changed` set that executes `Z` twice and is ABORTED
by the panic of `Q`; then a top-down session requiring `N`. -/

open DecEqAux

def mixedBody : Nat → Prog
  | 0 => .read 3 0 (fun h => match h with
      | .ok (some 99) => .ret 0
      | _ => .req 1 0 (fun _ => .panic))
  | 1 => .req 3 0 (fun a => .req 4 0 (fun _ => .req 2 0 (fun _ => .req 3 0 (fun b =>
      .ret (a * 100 + b)))))
  | 2 => .req 3 0 (fun a => .ret a)
  | 3 => .req 4 0 (fun a => .ret a)
  | 4 => .read 1 0 (fun y => match y with
      | .ok (some 99) => .panic
      | .ok (some y) => .req 5 0 (fun _ => .read 10 0 (fun _ => .ret y))
      | _ => .ret 0)
  | 5 => .read 2 0 (fun g => match g with
      | .ok (some 99) => .panic
      | _ => .write 10 0 (some 7) (fun _ => .ret 0))
  | _ => .ret 0

def mixedRoles : Roles := mixedCexRoles

/-- The history of the counterexample followed by a top-down session requiring task 1. -/
def mixedHistory : List HStep := mixedCexHistory ++ [.session [1]]

theorem mixedBody_wf : WellFormedBody mixedRoles mixedBody := by
  intro t
  match t with
  | 0 =>
    refine ⟨by simp [mixedRoles, mixedCexRoles], by simp [mixedRoles, mixedCexRoles], fun x => ?_⟩
    dsimp only
    split
    · trivial
    · exact ⟨by simp [mixedRoles, mixedCexRoles], fun _ => trivial⟩
  | 1 => simp [StaticRoles, StaticRolesFrom, mixedBody, mixedRoles, mixedCexRoles]
  | 2 => simp [StaticRoles, StaticRolesFrom, mixedBody, mixedRoles, mixedCexRoles]
  | 3 => simp [StaticRoles, StaticRolesFrom, mixedBody, mixedRoles, mixedCexRoles]
  | 4 =>
    refine ⟨by simp [mixedRoles, mixedCexRoles], by simp [mixedRoles, mixedCexRoles], fun x => ?_⟩
    dsimp only
    split
    · trivial
    · exact ⟨by simp [mixedRoles, mixedCexRoles], fun _ =>
        ⟨by simp [mixedRoles, mixedCexRoles], by simp [mixedRoles, mixedCexRoles],
          fun _ => trivial⟩⟩
    · trivial
  | 5 =>
    refine ⟨by simp [mixedRoles, mixedCexRoles], by simp [mixedRoles, mixedCexRoles], fun x => ?_⟩
    dsimp only
    split
    · trivial
    · exact ⟨by simp [mixedRoles, mixedCexRoles], by simp, fun _ => trivial⟩
  | _ + 6 => trivial

theorem mixedBody_respects : ∀ t, Respects reflSem (mixedBody t) := by
  intro t
  match t with
  | 0 =>
    refine ⟨fun v v' s h1 h2 => by rw [reflSem_rcheck0 h1 h2], fun x => ?_⟩
    dsimp only
    split
    · trivial
    · exact ⟨fun _ _ _ => rfl, fun _ => trivial⟩
  | 1 =>
    exact ⟨fun o o' h => by rw [reflSem_ocheck0 h], fun _ => ⟨fun _ _ _ => rfl, fun _ =>
      ⟨fun _ _ _ => rfl, fun _ => ⟨fun o o' h => by rw [reflSem_ocheck0 h], fun _ => trivial⟩⟩⟩⟩
  | 2 => exact ⟨fun o o' h => by rw [reflSem_ocheck0 h], fun _ => trivial⟩
  | 3 => exact ⟨fun o o' h => by rw [reflSem_ocheck0 h], fun _ => trivial⟩
  | 4 =>
    refine ⟨fun v v' s h1 h2 => by rw [reflSem_rcheck0 h1 h2], fun x => ?_⟩
    dsimp only
    split
    · trivial
    · exact ⟨fun _ _ _ => rfl, fun _ => ⟨fun _ _ _ _ _ => rfl, fun _ => trivial⟩⟩
    · trivial
  | 5 =>
    refine ⟨fun v v' s h1 h2 => by rw [reflSem_rcheck0 h1 h2], fun x => ?_⟩
    dsimp only
    split
    · trivial
    · exact fun _ => trivial
  | _ + 6 => trivial

theorem mixedBody_oneChecker : ∀ t, OneChecker (mixedBody t) := by
  intro t
  match t with
  | 0 =>
    refine ⟨fun c' h => (nomatch h), fun x => ?_⟩
    dsimp only
    split
    · trivial
    · exact ⟨fun c' h => (nomatch h), fun _ => trivial⟩
  | 1 => simp [OneChecker, OneCk, mixedBody]
  | 2 => simp [OneChecker, OneCk, mixedBody]
  | 3 => simp [OneChecker, OneCk, mixedBody]
  | 4 =>
    refine ⟨fun c' h => (nomatch h), fun x => ?_⟩
    dsimp only
    split
    · trivial
    · exact ⟨fun c' h => (nomatch h), fun _ => ⟨by simp, fun _ => trivial⟩⟩
    · trivial
  | 5 =>
    refine ⟨fun c' h => (nomatch h), fun x => ?_⟩
    dsimp only
    split
    · trivial
    · exact ⟨by simp, fun _ => trivial⟩
  | _ + 6 => trivial

theorem mixedBody_writeExact : ∀ t, WriteExact reflSem (mixedBody t) := by
  intro t
  match t with
  | 0 =>
    refine fun x => ?_
    dsimp only
    split
    · trivial
    · exact fun _ => trivial
  | 1 => exact fun _ _ _ _ => trivial
  | 2 => exact fun _ => trivial
  | 3 => exact fun _ => trivial
  | 4 =>
    refine fun x => ?_
    dsimp only
    split
    · trivial
    · exact fun _ _ => trivial
    · trivial
  | 5 =>
    refine fun x => ?_
    dsimp only
    split
    · trivial
    · exact ⟨fun x x' s h1 h2 => reflSem_rcheck0 h1 h2, fun _ => trivial⟩
  | _ + 6 => trivial

/-- The `Pie` before the bottom-up build, and after it. -/
def mixedPie0 : PieSt := runHistory reflSem mixedBody 25 (mixedCexHistory.take 12)
def mixedPie : PieSt := runHistory reflSem mixedBody 25 mixedCexHistory

set_option maxRecDepth 8000 in
/-- The bottom-up build is told `[2, 3]` although resource 1 changed, too; it executes
`Q, N, M, Z` and then `Z` AGAIN (popped from the queue although it is consistent; nothing else is
scheduled by that), and is aborted by the panic of `Q`. -/
example : (bottomUpBuild reflSem mixedBody 25 mixedPie0.newSession [2, 3]).2.toOption = none ∧
    execsOf (bottomUpBuild reflSem mixedBody 25 mixedPie0.newSession [2, 3]).1.trace =
      [0, 1, 4, 5, 5] := by
  constructor <;> with_unfolding_all decide

set_option maxRecDepth 4000 in
/-- After the aborted build: `N` (task 1) keeps output 101 with a faithful record (`U` and `V`
returned their stale output 1 — the build was not told that resource 1 changed). -/
example : mixedPie.store.taskNode.map
      (fun p => (p.1, mixedPie.store.taskOutput p.2, mixedPie.store.depsFrom p.2)) =
    [(2, some 1, [.require 3 0 (.int 1)]), (3, some 1, [.require 4 0 (.int 1)]),
     (4, some 2, [.read 1 0 (.optInt (some 2)), .require 5 0 (.int 0),
        .read 10 0 (.optInt (some 7))]),
     (5, some 0, [.read 2 0 (.optInt (some 3)), .write 10 0 (.optInt (some 7))]),
     (0, none, [.read 3 0 (.optInt (some 1)), .require 1 0 (.int 101)]),
     (1, some 101, [.require 3 0 (.int 1), .require 4 0 (.int 2), .require 2 0 (.int 1)])] := by
  with_unfolding_all decide

/-- The invariants hold after the aborted build (theorem 2 applied). -/
example : PieInvW mixedRoles reflSem mixedBody mixedPie :=
  C01_pieInv_mixed_history reflSem_stampTotal reflSem_reflexive mixedBody_wf mixedBody_respects
    mixedBody_oneChecker mixedBody_writeExact 25 mixedCexHistory

/-- The top-down session that follows re-validates: it returns 202 ... -/
theorem mixedPie_session :
    (requireAll reflSem mixedBody 25 mixedPie.newSession [1]).2 = .ok [202] := by
  with_unfolding_all decide

/-- ... which is what the from-scratch build on the same resources returns. -/
theorem mixedPie_clean :
    (cleanBuild reflSem mixedBody 25 mixedPie.fs [1]).2 = .ok [202] := by
  with_unfolding_all decide

/-- Theorem 4 applied: 202 is the from-scratch output of task 1 on the resources after the
history, and the session agrees with the clean build on every resource. -/
example : (∃ ws, Den mixedRoles reflSem mixedBody mixedPie.fs 1 (202, ws)) ∧
    ∀ r, aget (requireAll reflSem mixedBody 25 mixedPie.newSession [1]).1.fs r =
      aget (cleanBuild reflSem mixedBody 25 mixedPie.fs [1]).1.fs r := by
  obtain ⟨h1, _, _, h4⟩ := C19_full_results_after_abort_mixed reflSem_stampTotal reflSem_reflexive
    mixedBody_wf mixedBody_respects mixedBody_oneChecker mixedBody_writeExact 25 mixedCexHistory [1]
    _ _ (pair_of_snd mixedPie_session)
  refine ⟨?_, (h4 25 _ _ (pair_of_snd mixedPie_clean)).2⟩
  cases h1 with
  | cons h _ => exact h

set_option maxRecDepth 4000 in
/-- The log of the whole history (theorem 3): three top-down sessions returned (the two aborted
ones and the bottom-up build are not logged); the last one starts on `[1 ↦ 2, 2 ↦ 3, 3 ↦ 1, 10 ↦ 7]`
and returns 202. -/
example : (runStepsM reflSem mixedBody 25 {} mixedHistory).2.map
      (fun e => (e.before, e.roots, e.outs, e.after)) =
    [([(1, 1), (2, 5), (3, 99)], [2], [1], [(1, 1), (2, 5), (3, 99), (10, 7)]),
     ([(1, 1), (2, 5), (3, 99), (10, 7)], [0], [0], [(1, 1), (2, 5), (3, 99), (10, 7)]),
     ([(1, 2), (2, 3), (3, 1), (10, 7)], [1], [202], [(1, 2), (2, 3), (3, 1), (10, 7)])] := by
  with_unfolding_all decide

/-- Theorem 3 applied to the whole history. -/
example : ∀ e ∈ (runStepsM reflSem mixedBody 25 {} mixedHistory).2,
    ∀ r, aget e.after r = overlay mixedRoles reflSem mixedBody e.before
      (Demanded mixedRoles reflSem mixedBody e.before e.roots) r :=
  fun e he => ((C01_full_mixed_history reflSem_stampTotal reflSem_reflexive mixedBody_wf
    mixedBody_respects mixedBody_oneChecker mixedBody_writeExact 25 mixedHistory).2.2 e he).2

/-- The same history with the non-reflexive checker table: see `Props/C01FullMixedCex.lean`
(the session returns 102, the clean build 202). -/
example : ¬ Reflexive totalSem := totalSem_not_reflexive

/-! ### non-vacuity of the `OneAccess` variant

The counterexample program without the second require of `U` in task 1, under the NON-reflexive
checker table `totalSem` (the read of resource 10 uses `FailWhen(7)`), on the same history: in the
aborted, incompletely informed bottom-up build `Z`, `M`, `U`, `V` are executed again although `U`
was already marked consistent and its output changes from 1 to 2 between the require of `U` and
the end of `N`; the record of `N` stays faithful, and the session that follows returns the
from-scratch output. -/

def mixedBody1 : Nat → Prog
  | 1 => .req 3 0 (fun a => .req 4 0 (fun m => .req 2 0 (fun v => .ret (a * 100 + m * 10 + v))))
  | t => mixedCexBody t

theorem mixedBody1_wf : WellFormedBody mixedCexRoles mixedBody1 := by
  intro t
  by_cases h1 : t = 1
  · subst h1; simp [StaticRoles, StaticRolesFrom, mixedBody1, mixedCexRoles]
  · have : mixedBody1 t = mixedCexBody t := by
      unfold mixedBody1; split
      · exact absurd rfl h1
      · rfl
    rw [StaticRoles, this]; exact mixedCexBody_wf t

theorem mixedBody1_respects : ∀ t, Respects totalSem (mixedBody1 t) := by
  intro t
  by_cases h1 : t = 1
  · subst h1
    exact ⟨fun o o' h => by rw [totalSem_ocheck0 h], fun _ => ⟨fun o o' h => by
      rw [totalSem_ocheck0 h], fun _ => ⟨fun o o' h => by rw [totalSem_ocheck0 h], fun _ => trivial⟩⟩⟩
  · have : mixedBody1 t = mixedCexBody t := by
      unfold mixedBody1; split
      · exact absurd rfl h1
      · rfl
    rw [this]; exact mixedCexBody_respects t

theorem mixedBody1_writeExact : ∀ t, WriteExact totalSem (mixedBody1 t) := by
  intro t
  by_cases h1 : t = 1
  · subst h1; exact fun _ _ _ => trivial
  · have : mixedBody1 t = mixedCexBody t := by
      unfold mixedBody1; split
      · exact absurd rfl h1
      · rfl
    rw [this]; exact mixedCexBody_writeExact t

theorem mixedBody1_oneAccess : ∀ t, OneAccess (mixedBody1 t) := by
  intro t
  match t with
  | 0 =>
    refine ⟨by simp, fun x => ?_⟩
    show NoRep [] [3] (match x with
      | .ok (some 99) => .ret 0
      | _ => .req 1 0 (fun _ => .panic))
    split
    · trivial
    · exact ⟨by simp, fun _ => trivial⟩
  | 1 => simp [OneAccess, NoRep, mixedBody1]
  | 2 => simp [OneAccess, NoRep, mixedBody1, mixedCexBody]
  | 3 => simp [OneAccess, NoRep, mixedBody1, mixedCexBody]
  | 4 =>
    refine ⟨by simp, fun x => ?_⟩
    show NoRep [] [1] (match x with
      | .ok (some 99) => .panic
      | .ok (some y) => .req 5 0 (fun _ => .read 10 17 (fun _ => .ret y))
      | _ => .ret 0)
    split
    · trivial
    · exact ⟨by simp, fun _ => ⟨by simp, fun _ => trivial⟩⟩
    · trivial
  | 5 =>
    refine ⟨by simp, fun x => ?_⟩
    show NoRep [] [2] (match x with
      | .ok (some 99) => .panic
      | _ => .write 10 0 (some 7) (fun _ => .ret 0))
    split
    · trivial
    · exact fun _ => trivial
  | _ + 6 => trivial

def mixedPie1 : PieSt := runHistory totalSem mixedBody1 25 mixedCexHistory

set_option maxRecDepth 8000 in
/-- The build executes `Q, N, M, Z, Z, M, U, V` (`U` after it was marked consistent) and aborts;
`N` keeps output 122 (`a` = the stale 1, `m` = `v` = 2) with a faithful record. -/
example : execsOf (bottomUpBuild totalSem mixedBody1 25
      (runHistory totalSem mixedBody1 25 (mixedCexHistory.take 12)).newSession [2, 3]).1.trace =
      [0, 1, 4, 5, 5, 4, 3, 2] ∧
    mixedPie1.store.taskOutput 9 = some 122 ∧
    mixedPie1.store.depsFrom 9 =
      [.require 3 0 (.int 1), .require 4 0 (.int 2), .require 2 0 (.int 2)] := by
  refine ⟨?_, ?_, ?_⟩ <;> with_unfolding_all decide

theorem mixedPie1_session :
    (requireAll totalSem mixedBody1 25 mixedPie1.newSession [1]).2 = .ok [222] := by
  with_unfolding_all decide

theorem mixedPie1_clean :
    (cleanBuild totalSem mixedBody1 25 mixedPie1.fs [1]).2 = .ok [222] := by
  with_unfolding_all decide

/-- The invariants hold after the history, and the session agrees with the clean build on every
resource (theorems applied; the checker table is not reflexive). -/
example : PieInvW mixedCexRoles totalSem mixedBody1 mixedPie1 ∧
    ∀ r, aget (requireAll totalSem mixedBody1 25 mixedPie1.newSession [1]).1.fs r =
      aget (cleanBuild totalSem mixedBody1 25 mixedPie1.fs [1]).1.fs r :=
  ⟨C01_pieInv_mixed_history_oneAccess totalSem_stampTotal mixedBody1_wf mixedBody1_oneAccess 25
      mixedCexHistory,
    ((C19_full_results_after_abort_mixed_oneAccess totalSem_stampTotal mixedBody1_wf
      mixedBody1_oneAccess mixedBody1_respects mixedBody1_writeExact 25 mixedCexHistory [1] _ _
      (pair_of_snd mixedPie1_session)).2.2.2 25 _ _ (pair_of_snd mixedPie1_clean)).2⟩

end PieModel
