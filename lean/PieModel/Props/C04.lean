import PieModel.Build.Pie
namespace PieModel
theorem C04_placeholder : True := trivial
end PieModel
