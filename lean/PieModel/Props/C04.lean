/-
Property C04, the queue as a pure data structure: "a scheduled task is never executed before
another scheduled task that it depends on".

Edges of the dependency graph go from a task to what it depends on and every edge goes upward
in rank (`Dag.Inv.upward`), so the (transitive) dependencies of a node have *higher* rank.
`queuePop` removes the queued node of greatest rank; `queuePopLeastFrom st q src` removes the
queued node of greatest rank in the cone `{src} ∪ {m | src ↝ m}`.  Therefore the node handed
out for execution never reaches a node that is still queued.

Property statements only; the proofs are in `PieModel/Build/QueueLemmas.lean`.
-/
import PieModel.Build.QueueLemmas
import PieModel.Props.C10

namespace PieModel
open Dag

/-! ### `Queue::add` -/

theorem C04_queueAdd_mem {q : List Nat} {n m : Nat} : m ∈ queueAdd q n ↔ m ∈ q ∨ m = n :=
  mem_queueAdd

theorem C04_queueAdd_nodup {q : List Nat} {n : Nat} : q.Nodup → (queueAdd q n).Nodup :=
  queueAdd_nodup

/-! ### `Queue::pop` -/

/-- `queuePop` removes one occurrence of a queued node of greatest rank. -/
theorem C04_queuePop_spec (st : Store) (q q' : List Nat) (n : Nat)
    (h : queuePop st q = some (n, q')) :
    n ∈ q ∧ q'.Perm (q.erase n) ∧ (∀ m ∈ q, st.g.topoOf m ≤ st.g.topoOf n) ∧
      (q.Nodup → n ∉ q' ∧ q'.Nodup) :=
  ⟨queuePop_mem h, queuePop_perm_erase h, queuePop_max h, queuePop_nodup h⟩

/-- The remainder is sorted by rank, and sorting + popping is exactly "last of the sorted queue". -/
theorem C04_queuePop_sorted (st : Store) (q q' : List Nat) (n : Nat)
    (h : queuePop st q = some (n, q')) :
    queueSort st q = q' ++ [n] ∧ q'.Pairwise (fun a b => st.g.topoOf a ≤ st.g.topoOf b) :=
  ⟨queuePop_eq_some h, queuePop_rest_sorted h⟩

theorem C04_queuePop_none_iff (st : Store) (q : List Nat) : queuePop st q = none ↔ q = [] :=
  queuePop_eq_none

/-- **A popped node has no queued transitive dependency.** -/
theorem C04_pop_no_queued_dependency (st : Store) (hi : st.g.Inv) (q q' : List Nat) (n : Nat)
    (h : queuePop st q = some (n, q')) : ∀ m ∈ q', ¬ st.g.Reach n m :=
  fun m hm => queuePop_no_reach hi h m (queuePop_rest_subset h hm)

/-- With duplicate-free live entries the popped node has *strictly* the greatest rank. -/
theorem C04_pop_rank_strict_max (st : Store) (hi : st.g.Inv) (q q' : List Nat) (n : Nat)
    (hn : q.Nodup) (hl : ∀ m ∈ q, st.g.containsNode m = true)
    (h : queuePop st q = some (n, q')) : ∀ m ∈ q', st.g.topoOf m < st.g.topoOf n := by
  intro m hm
  have hs := queueSort_strict hi.toWF hn hl
  rw [queuePop_eq_some h, List.pairwise_append] at hs
  exact hs.2.2 m hm n (by simp)

/-- Draining the queue: the pop order enumerates the queue, and no node comes before one of its
transitive dependencies. -/
theorem C04_drain_order (st : Store) (hi : st.g.Inv) (q : List Nat) (f : Nat)
    (hf : q.length ≤ f) :
    (queueDrain st f q).Perm q ∧
      (queueDrain st f q).Pairwise (fun a b => ¬ st.g.Reach a b) :=
  ⟨queueDrain_perm st f q hf, queueDrain_no_reach hi f q⟩

/-! ### `Vec::swap_remove` -/

theorem C04_swapRemove_perm {v : List Nat} {i : Nat} (hi : i < v.length) :
    (swapRemove v i).Perm (v.eraseIdx i) :=
  swapRemove_perm hi

/-! ### `Queue::pop_least_task_with_dependency_from` -/

/-- `queuePopLeastFrom st q src` removes one occurrence of the queued node of greatest rank among
those in the cone of `src` (`src` itself or `containsTransitive src ·`). -/
theorem C04_popLeastFrom_spec (st : Store) (q q' : List Nat) (src n : Nat)
    (h : queuePopLeastFrom st q src = some (n, q')) :
    n ∈ q ∧ (n = src ∨ st.containsTransitive src n = true) ∧ q'.Perm (q.erase n) ∧
      (∀ m ∈ q, (m = src ∨ st.containsTransitive src m = true) →
        st.g.topoOf m ≤ st.g.topoOf n) ∧
      (q.Nodup → n ∉ q' ∧ q'.Nodup) := by
  obtain ⟨_, _, _, _, hcn, _⟩ := queuePopLeastFrom_eq_some h
  exact ⟨queuePopLeastFrom_mem h, inCone_iff.mp hcn, queuePopLeastFrom_perm_erase h,
    fun m hm hc => queuePopLeastFrom_max h m hm (inCone_iff.mpr hc), queuePopLeastFrom_nodup h⟩

theorem C04_popLeastFrom_none_iff (st : Store) (q : List Nat) (src : Nat) :
    queuePopLeastFrom st q src = none ↔
      ∀ m ∈ q, ¬ (m = src ∨ st.containsTransitive src m = true) := by
  rw [queuePopLeastFrom_eq_none]
  constructor
  · intro h m hm hc
    have := h m hm
    rw [inCone_iff.mpr hc] at this
    cases this
  · intro h m hm
    cases hc : inCone st src m
    · rfl
    · exact absurd (inCone_iff.mp hc) (h m hm)

/-- Under the graph invariant the node popped for `src` has no queued transitive dependency
inside the cone of `src` (no assumption on `containsTransitive`). -/
theorem C04_popLeastFrom_no_queued_dependency_in_cone (st : Store) (hi : st.g.Inv)
    (q q' : List Nat) (src n : Nat) (h : queuePopLeastFrom st q src = some (n, q')) :
    ∀ m ∈ q', (m = src ∨ st.containsTransitive src m = true) → ¬ st.g.Reach n m :=
  fun m hm hc => queuePopLeastFrom_no_reach_in_cone hi h m
    (queuePopLeastFrom_rest_subset h hm) (inCone_iff.mpr hc)

/-- If `containsTransitive` decides reachability (`hct`, proved separately), everything the
popped node reaches lies in the cone of `src`, hence **the node popped for `src` has no queued
transitive dependency at all**. -/
theorem C04_popLeastFrom_no_queued_dependency (st : Store) (hi : st.g.Inv)
    (hct : ∀ a b, st.containsTransitive a b = true ↔ st.g.Reach a b)
    (q q' : List Nat) (src n : Nat) (h : queuePopLeastFrom st q src = some (n, q')) :
    ∀ m ∈ q', ¬ st.g.Reach n m :=
  fun m hm => queuePopLeastFrom_no_reach hi hct h m (queuePopLeastFrom_rest_subset h hm)

/-- … and it is `src` or a transitive dependency of `src`. -/
theorem C04_popLeastFrom_in_cone (st : Store)
    (hct : ∀ a b, st.containsTransitive a b = true ↔ st.g.Reach a b)
    (q q' : List Nat) (src n : Nat) (h : queuePopLeastFrom st q src = some (n, q')) :
    n = src ∨ st.g.Reach src n := by
  obtain ⟨_, hc, _⟩ := C04_popLeastFrom_spec st q q' src n h
  exact hc.imp id (hct src n).mp

/-! ### non-vacuity -/

/-- Task nodes `0 → 1 → 2 ← 3` and an isolated node `4`; inserting `3 → 2` repairs the ranks to
`0:1, 1:2, 3:3, 2:4, 4:5`. -/
def c04Store : Store :=
  { g := Dag.run [.addNode (.task 0 none), .addNode (.task 1 none), .addNode (.task 2 none),
      .addNode (.task 3 none), .addNode (.task 4 none),
      .addEdge 0 1 .reserved, .addEdge 1 2 .reserved, .addEdge 3 2 .reserved] }

example : c04Store.g.iterUnsorted = [(1, 0), (2, 1), (4, 2), (3, 3), (5, 4)] := by decide

example : queueAdd (queueAdd (queueAdd [2, 0] 3) 0) 1 = [2, 0, 3, 1] := by decide

/-- `pop` hands out node 2 (on which 1 and 3 depend) first. -/
example : queuePop c04Store [2, 0, 3, 1] = some (2, [0, 1, 3]) := by decide

/-- The hypotheses of the main theorem are jointly satisfiable (the store is reachable, so its
graph satisfies the invariant): node 2 reaches none of the nodes left in the queue. -/
example : ∀ m ∈ [0, 1, 3], ¬ c04Store.g.Reach 2 m :=
  C04_pop_no_queued_dependency c04Store (C10_inv_reachable _) [2, 0, 3, 1] [0, 1, 3] 2 (by decide)

/-- The whole pop order: dependencies first. -/
example : queueDrain c04Store 4 [2, 0, 3, 1] = [2, 3, 1, 0] := by decide

/-- For `src = 1` the cone is `{1, 2}`: node 2 is popped, the rest is `swap_remove`d. -/
example : queuePopLeastFrom c04Store [2, 0, 3, 1, 4] 1 = some (2, [0, 1, 3, 4]) := by decide
example : queuePopLeastFrom c04Store [0, 3, 1, 4] 1 = some (1, [0, 4, 3]) := by decide
example : queuePopLeastFrom c04Store [0, 3] 4 = none := by decide

example : swapRemove [10, 11, 12, 13] 1 = [10, 13, 12] := by decide

/-- On the example store `containsTransitive` agrees with reachability on the queried pairs. -/
example : c04Store.containsTransitive 0 2 = true ∧ c04Store.containsTransitive 2 0 = false ∧
    c04Store.containsTransitive 1 3 = false := by decide

end PieModel
