/-
Property C20, static-role fragment: *no diagnosed violation ever*.

"An incremental build aborts with a cycle, hidden-dependency or overlapping-write error only if
the tasks, as they behave in the current resource state, actually contain that violation; for
all well-formed programs (which contain no violation in any state) and all histories: no abort
ever."

Here "well-formed" is made precise by *static roles* (`PieModel/Build/Roles.lean`):
`Roles.rank` orders the task names and every require goes to strictly greater rank (so the
require relation is acyclic in every resource state); `Roles.gen r = some w` designates `w` as
the only task that may write resource `r`; a task writes a resource at most once per execution
path and never reads a resource it may write; a task reads a generated resource only after it
required the generator on the same path (`StaticRoles`, `WellFormedBody`).  Such programs
contain no cycle, no overlapping write and no hidden dependency in any state.

Theorems (for every checker semantics `sem`, every fuel, every `WellFormedBody ro body`):
* `RolesInv ro` (every edge of the store respects the roles; every read edge into a generated
  resource comes with a direct edge from the reader to the generator) holds for the empty store
  and is preserved by every function of the model, whatever the result;
* none of the functions returns `.abort .cyclic`, `.abort .hidden` or `.abort .overlap`;
* `C20_static_no_abort`: along every history of external changes, top-down sessions (several
  roots) and bottom-up builds followed by requires, no session or build ends with one of the
  three aborts (`.taskPanic` and `.outOfFuel` remain possible; `.bug` is handled in C19/C18).

Property statements only; proofs in `PieModel/Build/Roles.lean` (store), `RolesSession.lean`
(primitives), `RolesTopDown.lean`, `RolesBottomUp.lean`.
-/
import PieModel.Build.RolesBottomUp
import PieModel.Props.C19

namespace PieModel

variable (ro : Roles) (sem : Sem) (body : Nat → Prog)

/-! ### the invariant -/

/-- The empty store satisfies the invariant. -/
theorem C20_rolesInv_empty : RolesInv ro {} := RolesInv.empty ro

/-- The invariant contains store well-formedness. -/
theorem C20_rolesInv_wf (st : Store) (h : RolesInv ro st) : st.WF := h.wf

/-- Every path between task nodes strictly increases the rank: the require graph of the store is
acyclic "for a static reason". -/
theorem C20_reach_rank (st : Store) (h : RolesInv ro st) (a b ta tb : Nat) (hr : st.g.Reach a b)
    (ha : st.taskOf a = some ta) (hb : st.taskOf b = some tb) : ro.rank ta < ro.rank tb :=
  h.reach_rank hr ha hb

/-- The store operations preserve the invariant (side conditions: the new edge respects the
roles). -/
theorem C20_store_ops (st : Store) (h : RolesInv ro st) :
    (∀ t, RolesInv ro (st.getOrCreateTaskNode t).1) ∧
    (∀ r, RolesInv ro (st.getOrCreateResNode r).1) ∧
    (∀ n o, RolesInv ro (st.setTaskOutput n o)) ∧
    (∀ n, RolesInv ro (st.resetTask n)) ∧
    (∀ src dst t u, st.taskOf src = some t → st.taskOf dst = some u → ro.rank t < ro.rank u →
      RolesInv ro (st.addDependency src dst .reserved).1) ∧
    (∀ src dst t c stamp st', st.setDependency src dst (.require t c stamp) = some st' →
      st.taskOf dst = some t → RolesInv ro st') :=
  ⟨h.getOrCreateTaskNode, h.getOrCreateResNode, h.setTaskOutput, h.resetTask,
    fun _ _ _ u hs hd hlt => h.addDependency hs (d := .reserved) ⟨u, hd⟩
      (fun u' hu' => by rw [hd] at hu'; cases hu'; exact hlt)
      (fun _ _ _ hh => nomatch hh) (fun _ _ _ _ hh => nomatch hh),
    fun _ _ _ _ _ _ hs hd => h.setDependency hs hd⟩

/-! ### the three diagnoses, at the primitives

`cur` is the executing task node (task `t0`), `a` the path accumulator reflected in the store
(`AccOK`). -/

/-- A read of `r` after the generator of `r` (if any) was required: never `hidden`; the
invariant and the accumulator facts are kept. -/
theorem C20_read_ok (s : Sess) (h : SessWF s) (hi : RolesInv ro s.store) (cur t0 : Nat)
    (hc : s.cur = some cur) (ht : s.store.taskOf cur = some t0) (a : Acc)
    (ha : AccOK s.store cur a) (r c : Nat) (hreq : ∀ w, ro.gen r = some w → w ∈ a.req) :
    NoViol (doRead sem s r c).2 ∧ SessWF (doRead sem s r c).1 ∧
      RolesInv ro (doRead sem s r c).1.store ∧ AccOK (doRead sem s r c).1.store cur a :=
  have := doRead_roles sem h hi hc ht ha r c hreq 0
  ⟨this.1.noViol, this.1.rext.wf, this.1.rext.inv, this.2⟩

/-- The first write of `r` in this execution by its generator: never `overlap`, never `hidden`. -/
theorem C20_write_ok (s : Sess) (h : SessWF s) (hi : RolesInv ro s.store) (cur t0 : Nat)
    (hc : s.cur = some cur) (ht : s.store.taskOf cur = some t0) (a : Acc)
    (ha : AccOK s.store cur a) (r c : Nat) (v : Option Int) (hg : ro.gen r = some t0)
    (hnw : r ∉ a.wr) :
    (NoViol (doWrite sem s r c v).2 ∧ SessWF (doWrite sem s r c v).1 ∧
      RolesInv ro (doWrite sem s r c v).1.store ∧
      AccOK (doWrite sem s r c v).1.store cur { a with wr := r :: a.wr }) ∧
    (NoViol (doWrote sem s r c v).2 ∧ SessWF (doWrote sem s r c v).1 ∧
      RolesInv ro (doWrote sem s r c v).1.store ∧
      AccOK (doWrote sem s r c v).1.store cur { a with wr := r :: a.wr }) :=
  have h1 := doWrite_roles sem h hi hc ht ha r c v hg hnw 0
  have h2 := doWrote_roles sem h hi hc ht ha r c v hg hnw 0
  ⟨⟨h1.1.noViol, h1.1.rext.wf, h1.1.rext.inv, h1.2⟩, ⟨h2.1.noViol, h2.1.rext.wf, h2.1.rext.inv, h2.2⟩⟩

/-- Reserving a require edge to a task of greater rank: never `cyclic`. -/
theorem C20_reserve_ok (s : Sess) (h : SessWF s) (hi : RolesInv ro s.store) (dst t : Nat)
    (hd : s.store.taskOf dst = some t) (hpre : ReqPre ro s t) :
    NoViol (reserveRequire s dst).2 ∧ SessWF (reserveRequire s dst).1 ∧
      RolesInv ro (reserveRequire s dst).1.store :=
  have := (reserveRequire_roles h hi hd hpre 0).1
  ⟨this.noViol, this.rext.wf, this.rext.inv⟩

/-! ### aborts along a history -/

/-- The abort (if any) with which a session / build of one history step ends. -/
def stepAborts (fuel : Nat) (p : PieSt) : HStep → List Abort
  | .change _ _ => []
  | .session roots =>
    match (requireAll sem body fuel p.newSession roots).2 with
    | .abort a => [a]
    | .ok _ => []
  | .bottomUp changed roots =>
    match bottomUpBuild sem body fuel p.newSession changed with
    | (_, .abort a) => [a]
    | (s, .ok ()) =>
      match (requireAll sem body fuel s roots).2 with
      | .abort a => [a]
      | .ok _ => []

/-- All aborts produced along a history started in `p` (states threaded by `runStep`). -/
def historyAborts (fuel : Nat) : PieSt → List HStep → List Abort
  | _, [] => []
  | p, st :: rest =>
    stepAborts sem body fuel p st ++ historyAborts fuel (runStep sem body fuel p st) rest

/-- `historyAborts` collects, for every step of the history, the abort of that step run in the
state reached by the preceding steps (as computed by `runHistory`). -/
theorem C20_historyAborts_spec (fuel : Nat) (steps : List HStep) (a : Abort) :
    a ∈ historyAborts sem body fuel {} steps ↔
      ∃ pre st post, steps = pre ++ st :: post ∧
        a ∈ stepAborts sem body fuel (runHistory sem body fuel pre) st := by
  unfold runHistory
  suffices H : ∀ (steps : List HStep) (p : PieSt), a ∈ historyAborts sem body fuel p steps ↔
      ∃ pre st post, steps = pre ++ st :: post ∧
        a ∈ stepAborts sem body fuel (pre.foldl (runStep sem body fuel) p) st from H steps {}
  intro steps
  induction steps with
  | nil =>
    intro p
    simp [historyAborts]
  | cons st rest ih =>
    intro p
    simp only [historyAborts, List.mem_append, ih]
    constructor
    · rintro (h | ⟨pre, st', post, rfl, h⟩)
      · exact ⟨[], st, rest, rfl, h⟩
      · exact ⟨st :: pre, st', post, rfl, h⟩
    · rintro ⟨pre, st', post, heq, h⟩
      cases pre with
      | nil =>
        simp only [List.nil_append, List.cons.injEq] at heq
        obtain ⟨rfl, rfl⟩ := heq
        exact .inl h
      | cons x pre =>
        simp only [List.cons_append, List.cons.injEq] at heq
        obtain ⟨rfl, rfl⟩ := heq
        exact .inr ⟨pre, st', post, rfl, h⟩

variable {ro} {body}
variable (hwf : WellFormedBody ro body)
include hwf

/-! ### top-down -/

/-- The five mutually recursive functions of the top-down context: invariant preserved
whatever the result, no diagnosed violation.  (`tdRun`: for the remaining program `p` of the
executing task `t0` with the path accumulator `a` reflected in the store.) -/
theorem C20_static_topdown (fuel : Nat) (s : Sess) (h : SessWF s) (hi : RolesInv ro s.store) :
    (∀ t c, ReqPre ro s t → NoViol (tdRequire sem body fuel s t c).2 ∧
      SessWF (tdRequire sem body fuel s t c).1 ∧ RolesInv ro (tdRequire sem body fuel s t c).1.store) ∧
    (∀ t, NoViol (tdMake sem body fuel s t).2 ∧
      SessWF (tdMake sem body fuel s t).1 ∧ RolesInv ro (tdMake sem body fuel s t).1.store) ∧
    (∀ node t, s.store.taskOf node = some t → NoViol (tdCheck sem body fuel s node).2 ∧
      SessWF (tdCheck sem body fuel s node).1 ∧ RolesInv ro (tdCheck sem body fuel s node).1.store) ∧
    (∀ ds, NoViol (tdCheckDeps sem body fuel s ds).2 ∧
      SessWF (tdCheckDeps sem body fuel s ds).1 ∧ RolesInv ro (tdCheckDeps sem body fuel s ds).1.store) ∧
    (∀ p cur t0 a, s.cur = some cur → s.store.taskOf cur = some t0 → StaticRolesFrom ro t0 a p →
      AccOK s.store cur a → NoViol (tdRun sem body fuel s p).2 ∧
      SessWF (tdRun sem body fuel s p).1 ∧ RolesInv ro (tdRun sem body fuel s p).1.store) := by
  have H := tdRoles (sem := sem) hwf fuel
  refine ⟨fun t c hp => ?_, fun t => ?_, fun n t ht => ?_, fun ds => ?_,
    fun p cur t0 a hc ht hp ha => ?_⟩
  · have := (H.require s t c h hi hp).1; exact ⟨this.noViol, this.rext.wf, this.rext.inv⟩
  · have := H.make s t h hi; exact ⟨this.noViol, this.rext.wf, this.rext.inv⟩
  · have := H.check s n t h hi ht; exact ⟨this.noViol, this.rext.wf, this.rext.inv⟩
  · have := H.checkDeps s ds 0 h hi (fun _ _ _ _ => Nat.zero_le _)
    exact ⟨this.noViol, this.rext.wf, this.rext.inv⟩
  · have := H.run s p cur t0 a h hi hc ht hp ha
    exact ⟨this.noViol, this.rext.wf, this.rext.inv⟩

/-- `Session::require` and a list of roots. -/
theorem C20_static_no_abort_topdown (fuel : Nat) (s : Sess) (h : SessWF s)
    (hi : RolesInv ro s.store) (roots : List Nat) :
    NoViol (requireAll sem body fuel s roots).2 ∧ SessWF (requireAll sem body fuel s roots).1 ∧
      RolesInv ro (requireAll sem body fuel s roots).1.store :=
  have := requireAll_roles (sem := sem) hwf fuel roots h hi
  ⟨this.noViol, this.rext.wf, this.rext.inv⟩

theorem C20_static_sessionRequire (fuel : Nat) (s : Sess) (h : SessWF s)
    (hi : RolesInv ro s.store) (t : Nat) :
    NoViol (sessionRequire sem body fuel s t).2 ∧ SessWF (sessionRequire sem body fuel s t).1 ∧
      RolesInv ro (sessionRequire sem body fuel s t).1.store :=
  have := sessionRequire_roles (sem := sem) hwf fuel h hi t
  ⟨this.noViol, this.rext.wf, this.rext.inv⟩

/-! ### bottom-up -/

omit hwf in
/-- Scheduling only creates resource nodes. -/
theorem C20_static_scheduling (s : Sess) (h : SessWF s) (hi : RolesInv ro s.store) :
    (∀ tnode d, RolesInv ro (trySchedule sem s tnode d).store) ∧
    (∀ r, RolesInv ro (scheduleAffectedBy sem s r).store) ∧
    (∀ node t out, RolesInv ro (scheduleAfterExec sem s node t out).store) :=
  ⟨fun n d => (store_trySchedule sem s n d) ▸ hi,
    fun r => (scheduleAffectedBy_rext sem h hi r 0 none).inv,
    fun n t o => (scheduleAfterExec_rext sem h hi n t o 0 none).inv⟩

/-- The six mutually recursive functions of the bottom-up context. -/
theorem C20_static_bottomup (fuel : Nat) (s : Sess) (h : SessWF s) (hi : RolesInv ro s.store) :
    (∀ t c, ReqPre ro s t → NoViol (buRequire sem body fuel s t c).2 ∧
      SessWF (buRequire sem body fuel s t c).1 ∧ RolesInv ro (buRequire sem body fuel s t c).1.store) ∧
    (∀ t node, s.store.taskOf node = some t → NoViol (buMake sem body fuel s t node).2 ∧
      SessWF (buMake sem body fuel s t node).1 ∧ RolesInv ro (buMake sem body fuel s t node).1.store) ∧
    (∀ t node, s.store.taskOf node = some t → NoViol (buExec sem body fuel s t node).2 ∧
      SessWF (buExec sem body fuel s t node).1 ∧ RolesInv ro (buExec sem body fuel s t node).1.store) ∧
    (∀ node, NoViol (buExecAndSchedule sem body fuel s node).2 ∧
      SessWF (buExecAndSchedule sem body fuel s node).1 ∧
      RolesInv ro (buExecAndSchedule sem body fuel s node).1.store) ∧
    (∀ src t, s.store.taskOf src = some t → NoViol (buRequireNow sem body fuel s src).2 ∧
      SessWF (buRequireNow sem body fuel s src).1 ∧
      RolesInv ro (buRequireNow sem body fuel s src).1.store) ∧
    (∀ p cur t0 a, s.cur = some cur → s.store.taskOf cur = some t0 → StaticRolesFrom ro t0 a p →
      AccOK s.store cur a → NoViol (buRun sem body fuel s p).2 ∧
      SessWF (buRun sem body fuel s p).1 ∧ RolesInv ro (buRun sem body fuel s p).1.store) := by
  have H := buRoles (sem := sem) hwf fuel
  refine ⟨fun t c hp => ?_, fun t n ht => ?_, fun t n ht => ?_, fun n => ?_, fun n t ht => ?_,
    fun p cur t0 a hc ht hp ha => ?_⟩
  · have := (H.require s t c h hi hp).1; exact ⟨this.noViol, this.rext.wf, this.rext.inv⟩
  · have := H.make s t n h hi ht; exact ⟨this.noViol, this.rext.wf, this.rext.inv⟩
  · have := H.exec s t n h hi ht; exact ⟨this.noViol, this.rext.wf, this.rext.inv⟩
  · have := H.execAndSchedule s n 0 h hi (fun _ _ => Nat.zero_le _)
    exact ⟨this.noViol, this.rext.wf, this.rext.inv⟩
  · have := H.requireNow s n t h hi ht; exact ⟨this.noViol, this.rext.wf, this.rext.inv⟩
  · have := H.run s p cur t0 a h hi hc ht hp ha
    exact ⟨this.noViol, this.rext.wf, this.rext.inv⟩

/-- `create_bottom_up_build` … `update_affected_tasks`. -/
theorem C20_static_no_abort_bottomup (fuel : Nat) (s : Sess) (h : SessWF s)
    (hi : RolesInv ro s.store) (changed : List Nat) :
    NoViol (bottomUpBuild sem body fuel s changed).2 ∧
      SessWF (bottomUpBuild sem body fuel s changed).1 ∧
      RolesInv ro (bottomUpBuild sem body fuel s changed).1.store :=
  have := bottomUpBuild_roles (sem := sem) hwf fuel h hi changed
  ⟨this.noViol, this.rext.wf, this.rext.inv⟩

/-! ### histories -/

include hwf

/-- One step: the invariant is kept and the step does not end with a diagnosed violation. -/
theorem C20_static_runStep (fuel : Nat) (p : PieSt) (hi : RolesInv ro p.store) (st : HStep) :
    RolesInv ro (runStep sem body fuel p st).store ∧
      ∀ a ∈ stepAborts sem body fuel p st, a.isViol = false := by
  have h0 : SessWF p.newSession := C19_newSession_wf p hi.wf
  have hi0 : RolesInv ro p.newSession.store := hi
  cases st with
  | change r v =>
    refine ⟨?_, fun a ha => nomatch ha⟩
    unfold runStep; rw [C19_setContent_store]; exact hi
  | session roots =>
    have H := requireAll_roles (sem := sem) hwf fuel roots h0 hi0
    refine ⟨H.rext.inv, ?_⟩
    intro a ha
    simp only [stepAborts] at ha
    split at ha
    next a' heq => cases List.mem_singleton.mp ha; exact H.noViol _ heq
    · cases ha
  | bottomUp changed roots =>
    have H1 := bottomUpBuild_roles (sem := sem) hwf fuel h0 hi0 changed
    constructor
    · show RolesInv ro (match bottomUpBuild sem body fuel p.newSession changed with
        | (s, .abort _) => s.toPie
        | (s, .ok ()) => (requireAll sem body fuel s roots).1.toPie).store
      split
      next s a heq => exact (H1.out heq).1.inv
      next s heq =>
        exact (requireAll_roles (sem := sem) hwf fuel roots (H1.out heq).1.wf (H1.out heq).1.inv).rext.inv
    · intro a ha
      simp only [stepAborts] at ha
      split at ha
      next s a' heq => cases List.mem_singleton.mp ha; exact (H1.out heq).2 _ rfl
      next s heq =>
        have H2 := requireAll_roles (sem := sem) hwf fuel roots (H1.out heq).1.wf (H1.out heq).1.inv
        split at ha
        next a' heq2 => cases List.mem_singleton.mp ha; exact H2.noViol _ heq2
        · cases ha

/-- After every history the store satisfies the invariant. -/
theorem C20_static_history_inv (fuel : Nat) (steps : List HStep) :
    RolesInv ro (runHistory sem body fuel steps).store := by
  unfold runHistory
  have key : ∀ (l : List HStep) (p : PieSt), RolesInv ro p.store →
      RolesInv ro (l.foldl (runStep sem body fuel) p).store := by
    intro l
    induction l with
    | nil => intro p h; exact h
    | cons st l ih => intro p h; exact ih _ (C20_static_runStep sem hwf fuel p h st).1
  exact key steps {} (RolesInv.empty ro)

/-- **C20 (static-role fragment).**  For a program table that respects static roles, along
every history — external changes, top-down sessions with several roots, bottom-up builds
followed by requires — for every checker semantics and every fuel, no session or build ends
with a cyclic-dependency, hidden-dependency or overlapping-write abort. -/
theorem C20_static_no_abort (fuel : Nat) (steps : List HStep) :
    ∀ a ∈ historyAborts sem body fuel {} steps, a ≠ .cyclic ∧ a ≠ .hidden ∧ a ≠ .overlap := by
  have key : ∀ (l : List HStep) (p : PieSt), RolesInv ro p.store →
      ∀ a ∈ historyAborts sem body fuel p l, a.isViol = false := by
    intro l
    induction l with
    | nil => intro p _ a ha; cases ha
    | cons st l ih =>
      intro p h a ha
      have hs := C20_static_runStep sem hwf fuel p h st
      simp only [historyAborts, List.mem_append] at ha
      rcases ha with ha | ha
      · exact hs.2 a ha
      · exact ih _ hs.1 a ha
  intro a ha
  have := key steps {} (RolesInv.empty ro) a ha
  refine ⟨?_, ?_, ?_⟩ <;> rintro rfl <;> cases this

/-- The same in terms of `runHistory`: whatever history came before, the next top-down session
and the next bottom-up build do not end with a diagnosed violation. -/
theorem C20_static_no_abort_next (fuel : Nat) (steps : List HStep) (changed roots : List Nat) :
    NoViol (requireAll sem body fuel (runHistory sem body fuel steps).newSession roots).2 ∧
    NoViol (bottomUpBuild sem body fuel (runHistory sem body fuel steps).newSession changed).2 := by
  have hi := C20_static_history_inv sem hwf fuel steps
  have h0 := C19_newSession_wf _ hi.wf
  exact ⟨(requireAll_roles (sem := sem) hwf fuel roots h0 hi).noViol,
    (bottomUpBuild_roles (sem := sem) hwf fuel h0 hi changed).noViol⟩

/-- The from-scratch build agrees: in every resource state, the clean build of a program that
respects static roles does not end with a diagnosed violation either. -/
theorem C20_static_clean_agrees (fuel : Nat) (fs : List (Nat × Int)) (roots : List Nat) :
    NoViol (cleanBuild sem body fuel fs roots).2 ∧
      RolesInv ro (cleanBuild sem body fuel fs roots).1.store := by
  have h0 : SessWF ({ fs := fs } : Sess) :=
    ⟨Store.WF.empty, fun _ hn => (nomatch hn), fun _ hn => (nomatch hn)⟩
  have := requireAll_roles (sem := sem) hwf fuel roots h0 (RolesInv.empty ro)
  exact ⟨this.noViol, this.rext.inv⟩

omit hwf

/-! ### non-vacuity

Task 3 generates resource 10 from source 1; task 1 requires 3 and then reads 10; task 2 reads
source 0 and requires 3 only if it contains `1`. -/

def c20Roles : Roles := { rank := fun t => t, gen := fun r => if r = 10 then some 3 else none }

def c20Body : Nat → Prog
  | 1 => .req 3 0 (fun o => .read 10 0 (fun x =>
      match x with
      | .ok (some v) => .ret (v + o)
      | _ => .ret 0))
  | 2 => .read 0 0 (fun x =>
      match x with
      | .ok (some 1) => .req 3 0 (fun o => .ret o)
      | _ => .ret 7)
  | 3 => .read 1 0 (fun x =>
      .write 10 0 (match x with | .ok (some v) => some (v * 2) | _ => some 0) (fun _ => .ret 1))
  | _ => .ret 0

theorem c20Body_wf : WellFormedBody c20Roles c20Body := by
  intro t
  unfold StaticRoles
  match t with
  | 0 => simp [c20Body, StaticRolesFrom]
  | 1 =>
    simp only [c20Body, StaticRolesFrom, c20Roles]
    refine ⟨by decide, fun o => ⟨by decide, by simp, fun x => ?_⟩⟩
    split <;> trivial
  | 2 =>
    simp only [c20Body, StaticRolesFrom, c20Roles]
    refine ⟨by decide, by simp, fun x => ?_⟩
    split
    · exact ⟨by decide, fun _ => trivial⟩
    · trivial
  | 3 =>
    simp only [c20Body, StaticRolesFrom, c20Roles]
    exact ⟨by decide, by simp, fun x => ⟨by decide, by simp, fun _ => trivial⟩⟩
  | n + 4 => simp [c20Body, StaticRolesFrom]

/-- The verdict of a top-down session on `p`. -/
def c20Verdict (p : PieSt) (roots : List Nat) : Option Abort × Option (List Int) :=
  match requireAll stdSem c20Body 60 p.newSession roots with
  | (_, .abort a) => (some a, none)
  | (_, .ok os) => (none, some os)

def c20H1 : List HStep := [.change 1 (some 5), .change 0 (some 1)]
def c20H2 : List HStep := c20H1 ++ [.session [1, 2], .change 1 (some 6)]
def c20H3 : List HStep := c20H2 ++ [.session [1, 2], .change 1 (some 8), .change 0 (some 2)]

/-- First session: 3 writes `10 := 10`, 1 reads it, 2 requires 3. -/
example : c20Verdict (runHistory stdSem c20Body 60 c20H1) [1, 2] = (none, some [11, 1]) := by
  with_unfolding_all decide

/-- After an external change of source 1 the second session re-executes 3 (which overwrites the
resource task 1 read — no hidden dependency, no overlap) and then 1. -/
example : c20Verdict (runHistory stdSem c20Body 60 c20H2) [1, 2] = (none, some [13, 1]) := by
  with_unfolding_all decide

/-- A bottom-up build after further changes, followed by requires: no abort in the whole
history. -/
example : historyAborts stdSem c20Body 60 {} (c20H3 ++ [.bottomUp [1, 0] [1, 2]]) = [] := by
  with_unfolding_all decide

/-- ... as the theorem says. -/
example : ∀ a ∈ historyAborts stdSem c20Body 60 {} (c20H3 ++ [.bottomUp [1, 0] [1, 2]]),
    a ≠ .cyclic ∧ a ≠ .hidden ∧ a ≠ .overlap :=
  C20_static_no_abort stdSem c20Body_wf 60 _

/-- The hypothesis is needed.  Variant: task 1 reads the generated resource 10 WITHOUT requiring
its generator 3.  It does not respect the roles ... -/
def c20BadBody : Nat → Prog
  | 1 => .read 10 0 (fun _ => .ret 0)
  | t => c20Body t

example : ¬ StaticRoles c20Roles 1 (c20BadBody 1) := by
  simp [StaticRoles, c20BadBody, StaticRolesFrom, c20Roles]

/-- ... and after a session that built 3, the session requiring 1 aborts with `hidden`. -/
example : historyAborts stdSem c20BadBody 60 {} (c20H1 ++ [.session [3], .session [1]]) =
    [.hidden] := by
  with_unfolding_all decide

/-- The three diagnoses are reachable for programs that do NOT respect static roles (so the
theorem is not vacuous on the model side): C19's example program aborts with `cyclic`. -/
example : historyAborts stdSem c19Body 50 {} [.change 0 (some 1), .session [0]] = [.cyclic] := by
  with_unfolding_all decide

end PieModel
