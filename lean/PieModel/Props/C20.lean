import PieModel.Build.Pie
namespace PieModel
theorem C20_placeholder : True := trivial
end PieModel
