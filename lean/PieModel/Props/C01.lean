/-
Property C01 (write-free fragment): soundness of incremental top-down builds.

"Whenever requiring a task in a session returns, the returned output equals what executing the
same tasks from scratch against the current state of all resources would produce — whatever
resources were changed between sessions and whatever was built before on the same `Pie`."

Quantifier: every checker semantics `sem` with total resource stampers (`StampTotal`; a failing
stamp records no dependency, finding K5), every table of write-free task programs `body` whose
continuations respect their checkers (`Respects`: outputs depend only on what the checkers
observe) and use one checker per dependency target per execution (`OneChecker`; finding K2), every
fuel, every initial resource state, every finite history of top-down sessions (each requiring an
arbitrary list of roots, possibly aborting) interleaved with arbitrary external changes.

The from-scratch semantics is the big-step relation `Eval sem body fs` of
`PieModel/Build/Sound/Defs.lean` (deterministic: `C01_eval_deterministic`), linked to the model's
own `cleanBuild` by `C01_clean_build_eval`.  The proof is the joint induction `tdSound`
(`PieModel/Build/Sound/*.lean`) over the five mutually recursive functions of the top-down
context, with the store invariant `Faithful` and the session invariant `SInv`.
-/
import PieModel.Build.Sound.Session
import PieModel.Build.Sound.NoWrite
import PieModel.Build.StdSem
import PieModel.Props.C19

namespace PieModel

variable {sem : Sem} {body : Nat → Prog}

/-! ### the from-scratch semantics -/

theorem C01_eval_deterministic {fs : List (Nat × Int)} {t : Nat} {v w : Int}
    (h1 : Eval sem body fs t v) (h2 : Eval sem body fs t w) : v = w := h1.det h2

/-! ### 1. the store invariant `Faithful` -/

/-- The empty store is faithful. -/
theorem C01_faithful_empty : Faithful sem body ({} : Store) := Faithful.empty

/-- External changes do not touch the store (and `Faithful` does not mention the resources). -/
theorem C01_setContent_store (p : PieSt) (r : Nat) (v : Option Int) :
    (p.setContent r v).store = p.store := by cases v <;> rfl

/-- A new session on a well-formed faithful store satisfies the session invariant. -/
theorem C01_invariant_newSession (p : PieSt) (hw : p.store.WF) (hf : Faithful sem body p.store) :
    SInv sem body p.fs p.newSession := SInv.newSession hw hf

section
variable (hst : StampTotal sem) (hwfb : WriteFreeBody body)
  (hresp : ∀ t, Respects sem (body t)) (hone : ∀ t, OneChecker (body t))
include hst hwfb hresp hone

/-- Every top-down function maps a state satisfying the invariant (`SInv`: `SessWF`, `Faithful`,
`CSound`, …; in particular every new session on a well-formed faithful store) to a state with a
faithful store, **whatever the result** (`.ok` or `.abort`).  The side conditions of the inner
functions are those under which they are called (proved at every call site by the induction):
`tdMake`/`tdCheck`/`tdCheckDeps` work below the executing task (`CurReach`), `tdCheck(Deps)` on a
task that is not yet consistent and on (a suffix of) its own dependency list, `tdRun` on a
write-free program whose recorded dependencies match the accumulators of `OneCk`. -/
theorem C01_faithful_preserved (fuel : Nat) (s : Sess) (h : SInv sem body s.fs s) :
    (∀ u c, Faithful sem body (tdRequire sem body fuel s u c).1.store) ∧
    (∀ t, CurReach s (nodeOf s t) → Faithful sem body (tdMake sem body fuel s t).1.store) ∧
    (∀ m, m ∉ s.consistent → CurReach s m →
      Faithful sem body (tdCheck sem body fuel s m).1.store) ∧
    (∀ m ds, m ∉ s.consistent → CurReach s m → (∀ d ∈ ds, d ∈ s.store.depsFrom m) →
      Faithful sem body (tdCheckDeps sem body fuel s ds).1.store) ∧
    (∀ n p qt qr, s.cur = some n → p.WriteFree → OneCk qt qr p → RunInv sem s.fs qt qr s n →
      Faithful sem body (tdRun sem body fuel s p).1.store) ∧
    (∀ t, Faithful sem body (sessionRequire sem body fuel s t).1.store) ∧
    (∀ ts, Faithful sem body (requireAll sem body fuel s ts).1.store) := by
  have T := tdSound (fs := s.fs) hst hwfb hresp hone fuel
  exact ⟨fun u c => (T.require s u c h).faithful, fun t hc => (T.make s t h hc).faithful,
    fun m hm hc => (T.check s m h hm hc).faithful,
    fun m ds hm hc hd => (T.checkDeps s m ds h hm hc hd).faithful,
    fun n p qt qr hn hp ho hr => (T.run s n p qt qr h hn hp ho hr).faithful,
    fun t => (sessionRequire_outcome hst hwfb hresp hone fuel s t h).faithful,
    fun ts => (requireAll_outcome hst hwfb hresp hone fuel ts s h).faithful⟩

/-- A whole session, aborted or not, on a well-formed faithful `Pie` leaves a well-formed
faithful `Pie`. -/
theorem C01_faithful_session (fuel : Nat) (p : PieSt) (hw : p.store.WF)
    (hf : Faithful sem body p.store) (roots : List Nat) :
    (requireAll sem body fuel p.newSession roots).1.toPie.store.WF ∧
    Faithful sem body (requireAll sem body fuel p.newSession roots).1.toPie.store :=
  ⟨(requireAll_ext sem body fuel roots (C19_newSession_wf p hw)).wf.store,
    (requireAll_outcome hst hwfb hresp hone fuel roots _ (SInv.newSession hw hf)).faithful⟩

/-! ### 2. validation and execution are sound -/

/-- If `check_task` finds task node `m` consistent with output `o`, then `o` is its stored
output and the from-scratch output of its task. -/
theorem C01_check_sound (fuel : Nat) (s s' : Sess) (m t : Nat) (o : Int)
    (h : SInv sem body s.fs s) (ht : s.store.taskOf m = some t) (hm : m ∉ s.consistent)
    (hc : CurReach s m) (hr : tdCheck sem body fuel s m = (s', .ok (some o))) :
    Eval sem body s.fs t o ∧ s'.fs = s.fs ∧ s.store.taskOutput m = some o ∧
      s'.store.taskOutput m = some o := by
  obtain ⟨st, hp, hq⟩ := ((tdSound (fs := s.fs) hst hwfb hresp hone fuel).check s m h hm hc).ok _ _ hr
  obtain ⟨ho, hd⟩ := hq o rfl
  exact ⟨replay_eval hst (hresp t) (h.faithful m t o ht ho).1 (fun d hd' => (hd d hd').1),
    st.inv.fsEq, ho, by rw [(hp m (.inl rfl)).1.1]; exact ho⟩

/-- If `make_task_consistent` returns `v` for task `t` (whether by validation or by execution),
then `v` is the from-scratch output of `t` in the session's resource state, which is unchanged;
the node of `t` is marked consistent and stores `v`. -/
theorem C01_exec_sound (fuel : Nat) (s s' : Sess) (t : Nat) (v : Int)
    (h : SInv sem body s.fs s) (hc : CurReach s (nodeOf s t))
    (hr : tdMake sem body fuel s t = (s', .ok v)) :
    Eval sem body s.fs t v ∧ s'.fs = s.fs ∧ SInv sem body s.fs s' ∧
      nodeOf s t ∈ s'.consistent ∧ s'.store.taskOutput (nodeOf s t) = some v ∧
      aget s'.store.taskNode t = some (nodeOf s t) := by
  obtain ⟨st, h1, h2, h3, h4, _⟩ :=
    ((tdSound (fs := s.fs) hst hwfb hresp hone fuel).make s t h hc).ok _ _ hr
  exact ⟨h4, st.inv.fsEq, st.inv, h1, h2, (st.inv.wf.store.task_iff _ _).mpr h3⟩

/-! ### 3. sessions and histories -/

/-- **C01 for one `Session::require`**, from any state satisfying the invariant (in particular
after any number of earlier `require`s in the same session). -/
theorem C01_session_sound (fuel : Nat) (s s' : Sess) (t : Nat) (o : Int)
    (h : SInv sem body s.fs s) (hr : sessionRequire sem body fuel s t = (s', .ok o)) :
    Eval sem body s.fs t o ∧ s'.fs = s.fs ∧ SInv sem body s.fs s' := by
  obtain ⟨st, h1, h2, _⟩ := (sessionRequire_outcome hst hwfb hresp hone fuel s t h).ok _ _ hr
  exact ⟨h1, h2, st.inv⟩

/-- Several roots in one session. -/
theorem C01_requireAll_sound (fuel : Nat) (s s' : Sess) (ts : List Nat) (os : List Int)
    (h : SInv sem body s.fs s) (hr : requireAll sem body fuel s ts = (s', .ok os)) :
    List.Forall₂ (Eval sem body s.fs) ts os :=
  ((requireAll_outcome hst hwfb hresp hone fuel ts s h).ok _ _ hr).2

/-- **C01.** For every history of external changes and top-down sessions run from the empty
`Pie`, every output `o` returned by a `Session::require` of `root` while the resources were `fs`
is the from-scratch output of `root` on `fs`. -/
theorem C01_sources (fuel : Nat) (steps : List TStep) (fs : List (Nat × Int)) (root : Nat) (o : Int)
    (hx : (fs, root, o) ∈ (runSteps sem body fuel {} steps).2) : Eval sem body fs root o :=
  (runSteps_sound hst hwfb hresp hone fuel steps {} Store.WF.empty Faithful.empty).2.2 _ hx

/-- After every such history the store is well-formed and faithful. -/
theorem C01_history_faithful (fuel : Nat) (steps : List TStep) :
    (runSteps sem body fuel {} steps).1.store.WF ∧
    Faithful sem body (runSteps sem body fuel {} steps).1.store :=
  ⟨(runSteps_sound hst hwfb hresp hone fuel steps {} Store.WF.empty Faithful.empty).1,
    (runSteps_sound hst hwfb hresp hone fuel steps {} Store.WF.empty Faithful.empty).2.1⟩

/-! ### 4. against the model's own clean build -/

/-- The model's from-scratch build computes `Eval` (the main theorem on the empty store). -/
theorem C01_clean_build_eval (fuel : Nat) (fs : List (Nat × Int)) (roots : List Nat) (s : Sess)
    (os : List Int) (hr : cleanBuild sem body fuel fs roots = (s, .ok os)) :
    List.Forall₂ (Eval sem body fs) roots os :=
  C01_requireAll_sound hst hwfb hresp hone fuel ({ fs := fs } : Sess) s roots os
    (SInv.newSession (p := { fs := fs }) Store.WF.empty Faithful.empty) hr

/-- **C01 against `cleanBuild`.** An output returned by an incremental `require` equals the
output of a from-scratch build of the same root on the same resources (whenever the latter
returns, for any fuel). -/
theorem C01_equals_clean_build (fuel fuel' : Nat) (steps : List TStep) (fs : List (Nat × Int))
    (root : Nat) (o o' : Int) (s : Sess)
    (hx : (fs, root, o) ∈ (runSteps sem body fuel {} steps).2)
    (hc : cleanBuild sem body fuel' fs [root] = (s, .ok [o'])) : o = o' := by
  have h1 := C01_sources hst hwfb hresp hone fuel steps fs root o hx
  have h2 := C01_clean_build_eval hst hwfb hresp hone fuel' fs [root] s [o'] hc
  cases h2 with
  | cons h2 _ => exact h1.det h2

end

/-! ### 5. no spurious abort kinds -/

theorem Res.notHO_ne {α : Type} {r : Res α} (h : r.notHO) :
    r ≠ .abort .hidden ∧ r ≠ .abort .overlap := by
  constructor <;> (rintro rfl; simp [Res.notHO] at h)

/-- A write-free program never aborts with a hidden dependency or an overlapping write in a
top-down `require`, from any well-formed session state whose store contains no write dependency;
and it creates no write dependency. -/
theorem C01_no_spurious_abort_kinds (sem : Sem) (hwfb : WriteFreeBody body) (fuel : Nat) (s : Sess)
    (h : SessWF s) (hn : NoWrite s.store) (t : Nat) :
    NoWrite (sessionRequire sem body fuel s t).1.store ∧
    (sessionRequire sem body fuel s t).2 ≠ .abort .hidden ∧
    (sessionRequire sem body fuel s t).2 ≠ .abort .overlap :=
  ⟨(sessionRequire_nho sem body hwfb fuel h hn t).nw,
    Res.notHO_ne (sessionRequire_nho sem body hwfb fuel h hn t).nho⟩

/-- Same for a list of roots. -/
theorem C01_no_spurious_abort_kinds_all (sem : Sem) (hwfb : WriteFreeBody body) (fuel : Nat)
    (ts : List Nat) : ∀ (s : Sess), SessWF s → NoWrite s.store →
    NoWrite (requireAll sem body fuel s ts).1.store ∧
    (requireAll sem body fuel s ts).2 ≠ .abort .hidden ∧
    (requireAll sem body fuel s ts).2 ≠ .abort .overlap := by
  induction ts with
  | nil => intro s _ hn; exact ⟨hn, by simp [requireAll], by simp [requireAll]⟩
  | cons t ts ih =>
    intro s h hn
    have h1 := C01_no_spurious_abort_kinds sem hwfb fuel s h hn t
    have w1 := sessionRequire_ext sem body fuel h t
    unfold requireAll
    split
    next s2 a heq =>
      rw [heq] at h1
      exact ⟨h1.1, fun hh => h1.2.1 (by cases hh; rfl), fun hh => h1.2.2 (by cases hh; rfl)⟩
    next s2 o heq =>
      rw [heq] at h1
      have h2 := ih s2 (w1.out heq).wf h1.1
      split
      next s3 a heq3 =>
        rw [heq3] at h2
        exact ⟨h2.1, fun hh => h2.2.1 (by cases hh; rfl), fun hh => h2.2.2 (by cases hh; rfl)⟩
      next s3 os heq3 =>
        rw [heq3] at h2
        exact ⟨h2.1, by simp, by simp⟩

/-! ### the history type agrees with `C19`'s -/

def TStep.toHStep : TStep → HStep
  | .change r v => .change r v
  | .session roots => .session roots

/-- `runSteps` passes through the same `Pie` states as `runHistory` of C19. -/
theorem C01_history_agrees (sem : Sem) (body : Nat → Prog) (fuel : Nat) (steps : List TStep) :
    (runSteps sem body fuel {} steps).1 = runHistory sem body fuel (steps.map TStep.toHStep) := by
  unfold runHistory
  have key : ∀ (l : List TStep) (p : PieSt), (runSteps sem body fuel p l).1 =
      (l.map TStep.toHStep).foldl (runStep sem body fuel) p := by
    intro l
    induction l with
    | nil => intro p; rfl
    | cons st l ih =>
      intro p
      cases st with
      | change r v => unfold runSteps; rw [ih]; rfl
      | session roots =>
        unfold runSteps
        simp only [List.map_cons, List.foldl_cons]
        rw [ih, requireLog_fst]; rfl
  exact key steps {}

/-! ### non-vacuity

Three tasks.  Task 0 reads resource 0 (exact checker) and, depending on the value, requires task 1
(exact) and task 2 (`AlwaysConsistent`, result ignored), or task 2 (exact).  Task 1 reads
resource 1.  All other tasks return 7. -/

/-- `stdSem` with total resource stampers (checker ids ≥ 30 of `stdSem` fail on purpose). -/
def totalSem : Sem := { stdSem with rstamp := fun c v => .ok (stdRStampCore c v) }

theorem totalSem_stampTotal : StampTotal totalSem := fun _ _ => ⟨_, rfl⟩

def c01Body : Nat → Prog
  | 0 => .read 0 0 (fun x => match x with
      | .ok (some 1) => .req 1 0 (fun o => .req 2 4 (fun _ => .ret (o + 10)))
      | _ => .req 2 0 (fun o => .ret (o + 20)))
  | 1 => .read 1 0 (fun x => match x with | .ok (some v) => .ret v | _ => .ret 0)
  | _ => .ret 7

theorem c01Body_writeFree : WriteFreeBody c01Body := by
  intro t
  match t with
  | 0 =>
    refine .read _ _ _ (fun x => ?_)
    split
    · exact .req _ _ _ (fun o => .req _ _ _ (fun _ => .ret _))
    · exact .req _ _ _ (fun o => .ret _)
  | 1 =>
    refine .read _ _ _ (fun x => ?_)
    split <;> exact .ret _
  | _ + 2 => exact .ret _

theorem totalSem_ocheck0 {o o' : Int} (h : totalSem.ocheck 0 o' (totalSem.ostamp 0 o) = true) :
    o' = o := by
  simpa [totalSem, stdSem, stdOCheck, stdOStamp] using h

theorem totalSem_rcheck0 {v v' : Option Int} {s : Stamp} (h1 : totalSem.rstamp 0 v = .ok s)
    (h2 : totalSem.rcheck 0 v' s = .ok true) : v' = v := by
  simp only [totalSem, stdSem, stdRStampCore, Except.ok.injEq] at h1
  subst h1
  simpa [totalSem, stdSem, stdRCheck, stdRStampCore] using h2

theorem c01Body_respects : ∀ t, Respects totalSem (c01Body t) := by
  intro t
  match t with
  | 0 =>
    refine ⟨fun v v' s h1 h2 => by rw [totalSem_rcheck0 h1 h2], fun x => ?_⟩
    dsimp only
    split
    · exact ⟨fun o o' h => by rw [totalSem_ocheck0 h], fun o => ⟨fun _ _ _ => rfl, fun _ => trivial⟩⟩
    · exact ⟨fun o o' h => by rw [totalSem_ocheck0 h], fun o => trivial⟩
  | 1 =>
    refine ⟨fun v v' s h1 h2 => by rw [totalSem_rcheck0 h1 h2], fun x => ?_⟩
    dsimp only
    split <;> trivial
  | _ + 2 => trivial

theorem c01Body_oneChecker : ∀ t, OneChecker (c01Body t) := by
  intro t
  match t with
  | 0 =>
    refine ⟨fun c' h => (nomatch h), fun x => ?_⟩
    dsimp only
    split <;> simp [OneCk]
  | 1 =>
    refine ⟨fun c' h => (nomatch h), fun x => ?_⟩
    dsimp only
    split <;> trivial
  | _ + 2 => trivial

/-- A history: two changes, a session, a change of the resource read by task 1, a session with
two roots, a change that switches task 0 to its other branch, two more sessions. -/
def c01History : List TStep :=
  [.change 0 (some 1), .change 1 (some 5), .session [0], .change 1 (some 6), .session [0, 1],
   .change 0 (some 2), .session [0], .session [0]]

/-- The log of the run: every `require` returned, with these outputs. -/
example : (runSteps totalSem c01Body 60 {} c01History).2 =
    [([(0, 1), (1, 5)], 0, 15), ([(0, 1), (1, 6)], 0, 16), ([(0, 1), (1, 6)], 1, 6),
     ([(0, 2), (1, 6)], 0, 27), ([(0, 2), (1, 6)], 0, 27)] := by with_unfolding_all decide

/-- The theorem applied to the run: e.g. 16 is the from-scratch output of task 0 on `[0↦1, 1↦6]`. -/
example : Eval totalSem c01Body [(0, 1), (1, 6)] 0 16 :=
  C01_sources totalSem_stampTotal c01Body_writeFree c01Body_respects c01Body_oneChecker 60
    c01History _ _ _ (by with_unfolding_all decide)

/-- ... and it agrees with the model's clean build, which returns the same value. -/
example : (cleanBuild totalSem c01Body 60 [(0, 1), (1, 6)] [0]).2 matches .ok [16] := by
  with_unfolding_all decide

/-! ### why `SInv` and not just `SessWF ∧ Faithful` for the inner functions

The inner functions are not meant to be called on arbitrary states: if the *executing* task had an
output (never the case in a run: `SInv.curFree`), an aborted `require` would leave a `reserved`
dependency on a task with output.  Counterexample to "`SessWF ∧ Faithful` in ⇒ `Faithful` out" for
`tdRequire`: -/

/-- A `Pie` on which task 2 (node 0) was built. -/
def c01Built : PieSt := (requireAll totalSem c01Body 20 ({} : PieSt).newSession [2]).1.toPie

/-- A well-formed session state on it whose "executing" task (node 0) has an output. -/
def c01Bad : Sess := { c01Built.newSession with cur := some 0 }

example : Faithful totalSem c01Body c01Bad.store :=
  (C01_faithful_session totalSem_stampTotal c01Body_writeFree c01Body_respects c01Body_oneChecker
    20 {} Store.WF.empty Faithful.empty [2]).2

example : SessWF c01Bad :=
  ⟨(C01_faithful_session totalSem_stampTotal c01Body_writeFree c01Body_respects c01Body_oneChecker
      20 {} Store.WF.empty Faithful.empty [2]).1,
    fun n hn => by
      have : n = 0 := by simpa [c01Bad] using hn.symm
      subst this
      exact ⟨2, by with_unfolding_all decide⟩,
    fun n hn => (nomatch hn)⟩

/-- After an (out-of-fuel) `require` from that state, node 0 has an output and a `reserved`
dependency: the store is not faithful. -/
example : ¬ Faithful totalSem c01Body (tdRequire totalSem c01Body 1 c01Bad 1 0).1.store := by
  intro h
  have h1 : (tdRequire totalSem c01Body 1 c01Bad 1 0).1.store.taskOf 0 = some 2 := by
    with_unfolding_all decide
  have h2 : (tdRequire totalSem c01Body 1 c01Bad 1 0).1.store.taskOutput 0 = some 7 := by
    with_unfolding_all decide
  have h3 : Dep.reserved ∈ (tdRequire totalSem c01Body 1 c01Bad 1 0).1.store.depsFrom 0 := by
    with_unfolding_all decide
  exact (h 0 2 7 h1 h2).2 h3

end PieModel
