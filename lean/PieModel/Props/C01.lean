import PieModel.Build.Pie
namespace PieModel
theorem C01_placeholder : True := trivial
end PieModel
