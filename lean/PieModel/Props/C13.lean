/-
Property C13 — file-system resource: the three stamping routes of the `ExistsChecker`,
`ModifiedChecker` and `HashChecker` agree, a check against a stamp is consistent exactly while the
observed aspect is unchanged, stamping a reader leaves it at the start, and opening for writing
creates/truncates files and refuses directories.

All statements hold for ALL path states, byte strings and directory listings (no bounds).  The hash
(SHA-256 in the Rust code) is the parameter `hash`; only the theorems that need it assume
injectivity (`hinj`).  For the hash checker a change of kind between file and directory is *not*
claimed to be detected (see `C13_hash_kind_change_undetected` for why), and for directories only
"untouched ⇒ consistent" and "different name list ⇒ inconsistent" are claimed.
-/
import PieModel.Lib.FileRes
import PieModel.Lib.FileResLemmas

namespace PieModel
open FileRes

/-! ## ExistsChecker -/

/-- stamping from a fresh reader and from a just-used writer give the stamp made from the path -/
theorem C13_exists_routes_agree (st : PathSt) :
    (existsStampReader (openRead st)).1 = existsStamp st ∧ existsStampWriter st = existsStamp st :=
  ⟨rfl, rfl⟩

theorem C13_exists_reflexive (st : PathSt) : existsCheck st (existsStamp st) = true := by
  simp [existsCheck, existsStamp]

theorem C13_exists_iff (st st' : PathSt) :
    existsCheck st' (existsStamp st) = true ↔ exists_ st' = exists_ st := by
  simp [existsCheck, existsStamp]

theorem C13_exists_detects_change (st st' : PathSt) (h : exists_ st' ≠ exists_ st) :
    existsCheck st' (existsStamp st) = false := by
  simpa [existsCheck, existsStamp] using h

/-- creation and removal are both detected, whatever was created / removed -/
theorem C13_exists_detects_create_remove (st : PathSt) (h : st ≠ .absent) :
    existsCheck st (existsStamp .absent) = false ∧ existsCheck .absent (existsStamp st) = false := by
  cases st <;> simp_all [existsCheck, existsStamp, exists_]

/-- the exists route does not move the reader -/
theorem C13_exists_reader_unmoved (r : OpenRead) : (existsStampReader r).2 = r := rfl

/-! ## ModifiedChecker -/

theorem C13_modified_routes_agree (st : PathSt) :
    (modifiedStampReader (openRead st)).1 = modifiedStamp st ∧
      modifiedStampWriter st = modifiedStamp st :=
  ⟨rfl, rfl⟩

theorem C13_modified_reflexive (st : PathSt) : modifiedCheck st (modifiedStamp st) = true := by
  simp [modifiedCheck, modifiedStamp]

theorem C13_modified_iff (st st' : PathSt) :
    modifiedCheck st' (modifiedStamp st) = true ↔ mtime st' = mtime st := by
  simp [modifiedCheck, modifiedStamp]

theorem C13_modified_detects_change (st st' : PathSt) (h : mtime st' ≠ mtime st) :
    modifiedCheck st' (modifiedStamp st) = false := by
  simpa [modifiedCheck, modifiedStamp] using h

/-- a different modification time of a file or directory is detected, and so is creation/removal -/
theorem C13_modified_detects_touch (c c' : List Nat) (ns ns' : List (List Nat)) (t t' : Nat)
    (h : t' ≠ t) :
    modifiedCheck (.file c' t') (modifiedStamp (.file c t)) = false ∧
    modifiedCheck (.dir ns' t') (modifiedStamp (.dir ns t)) = false ∧
    modifiedCheck .absent (modifiedStamp (.file c t)) = false ∧
    modifiedCheck (.file c t) (modifiedStamp .absent) = false := by
  simp [modifiedCheck, modifiedStamp, mtime, h]

/-- the modified route does not move the reader -/
theorem C13_modified_reader_unmoved (r : OpenRead) : (modifiedStampReader r).2 = r := rfl

/-! ## HashChecker -/

section Hash
variable (hash : List Nat → Nat)

/-- the reader route of the hash checker: the stamp, for an arbitrary reader -/
theorem C13_hash_reader_stamp (r : OpenRead) :
    (hashStampReader hash r).1 =
      match r.st with
      | .file c _ => some (hash (c.drop r.pos))
      | st => hashOf hash st := by
  obtain ⟨st, pos⟩ := r
  cases st <;> simp [hashStampReader, OpenRead.readToEnd]

theorem C13_hash_routes_agree (st : PathSt) :
    (hashStampReader hash (openRead st)).1 = hashStamp hash st ∧
      hashStampWriter hash st = hashStamp hash st := by
  refine ⟨?_, rfl⟩
  cases st <;>
    simp [hashStampReader, openRead, OpenRead.readToEnd, hashStamp, hashOf, List.drop_zero]

theorem C13_hash_reflexive (st : PathSt) : hashCheck hash st (hashStamp hash st) = true := by
  simp [hashCheck, hashStamp]

/-- general form: the check compares the hashed aspect (`hashOf`) -/
theorem C13_hash_iff (st st' : PathSt) :
    hashCheck hash st' (hashStamp hash st) = true ↔ hashOf hash st' = hashOf hash st := by
  simp [hashCheck, hashStamp]

/-- files: consistent iff the content is the same (the modification time is irrelevant) -/
theorem C13_hash_file_iff (hinj : ∀ a b, hash a = hash b → a = b)
    (c c' : List Nat) (t t' : Nat) :
    hashCheck hash (.file c' t') (hashStamp hash (.file c t)) = true ↔ c' = c := by
  simp only [hashCheck, hashStamp, hashOf, beq_iff_eq, Option.some.injEq]
  exact ⟨hinj c' c, fun h => by rw [h]⟩

/-- absent against anything, and anything against absent: consistent iff both absent -/
theorem C13_hash_absent_iff (st : PathSt) :
    (hashCheck hash .absent (hashStamp hash st) = true ↔ st = .absent) ∧
    (hashCheck hash st (hashStamp hash .absent) = true ↔ st = .absent) := by
  cases st <;> simp [hashCheck, hashStamp, hashOf]

/-- the NUL-terminated listing is injective on NUL-free names (key lemma, re-exported) -/
theorem C13_dirBytes_injective (ns ns' : List (List Nat))
    (hns : ∀ n ∈ ns, 0 ∉ n) (hns' : ∀ n ∈ ns', 0 ∉ n) (h : dirBytes ns = dirBytes ns') :
    ns = ns' :=
  dirBytes_injective ns ns' hns hns' h

/-- directories: consistent iff the list of entry names is the same (names contain no NUL byte) -/
theorem C13_hash_dir_names (hinj : ∀ a b, hash a = hash b → a = b)
    (ns ns' : List (List Nat)) (t t' : Nat)
    (hns : ∀ n ∈ ns, 0 ∉ n) (hns' : ∀ n ∈ ns', 0 ∉ n) :
    hashCheck hash (.dir ns' t') (hashStamp hash (.dir ns t)) = true ↔ ns' = ns := by
  simp only [hashCheck, hashStamp, hashOf, beq_iff_eq, Option.some.injEq]
  exact ⟨fun h => dirBytes_injective ns' ns hns' hns (hinj _ _ h), fun h => by rw [h]⟩

theorem C13_hash_detects_change (hinj : ∀ a b, hash a = hash b → a = b)
    (c c' : List Nat) (t t' : Nat) (h : c' ≠ c) :
    hashCheck hash (.file c' t') (hashStamp hash (.file c t)) = false := by
  exact Bool.eq_false_iff.mpr fun hc => h ((C13_hash_file_iff hash hinj c c' t t').mp hc)

theorem C13_hash_dir_detects_change (hinj : ∀ a b, hash a = hash b → a = b)
    (ns ns' : List (List Nat)) (t t' : Nat)
    (hns : ∀ n ∈ ns, 0 ∉ n) (hns' : ∀ n ∈ ns', 0 ∉ n) (h : ns' ≠ ns) :
    hashCheck hash (.dir ns' t') (hashStamp hash (.dir ns t)) = false := by
  exact Bool.eq_false_iff.mpr fun hc =>
    h ((C13_hash_dir_names hash hinj ns ns' t t' hns hns').mp hc)

/-- creation and removal are detected by the hash checker (no injectivity needed) -/
theorem C13_hash_detects_create_remove (st : PathSt) (h : st ≠ .absent) :
    hashCheck hash st (hashStamp hash .absent) = false ∧
    hashCheck hash .absent (hashStamp hash st) = false := by
  cases st <;> simp_all [hashCheck, hashStamp, hashOf]

/-- Why a change of kind is not claimed: a directory replaced by a *file* whose content is exactly
the NUL-terminated listing of that directory has the same hash, for every `hash`. -/
theorem C13_hash_kind_change_undetected (ns : List (List Nat)) (t t' : Nat) :
    hashCheck hash (.file (dirBytes ns) t') (hashStamp hash (.dir ns t)) = true := by
  simp [hashCheck, hashStamp, hashOf]

/-! ## The reader is left at the start -/

theorem C13_stamp_reader_rewinds (r : OpenRead) :
    (hashStampReader hash r).2.pos = 0 ∧ (hashStampReader hash r).2.st = r.st := by
  obtain ⟨st, pos⟩ := r
  cases st <;> simp [hashStampReader, OpenRead.readToEnd, OpenRead.rewind]

/-- after stamping a fresh reader of a file, the task reads the full content -/
theorem C13_stamp_reader_then_full_read (c : List Nat) (t : Nat) :
    ((hashStampReader hash (openRead (.file c t))).2.readToEnd).1 = c := by
  simp [hashStampReader, openRead, OpenRead.readToEnd, OpenRead.rewind]

/-- more generally: after stamping ANY reader of a file (even one already read to some position),
the next full read yields the full content -/
theorem C13_stamp_reader_then_full_read_any (r : OpenRead) (c : List Nat) (t : Nat)
    (h : r.st = .file c t) :
    ((hashStampReader hash r).2.readToEnd).1 = c := by
  obtain ⟨st, pos⟩ := r
  cases h
  simp [hashStampReader, OpenRead.readToEnd, OpenRead.rewind]

/-- a stamped fresh reader is again a fresh reader -/
theorem C13_stamp_reader_fresh (st : PathSt) :
    (hashStampReader hash (openRead st)).2 = openRead st := by
  cases st <;> simp [hashStampReader, openRead, OpenRead.readToEnd, OpenRead.rewind]

end Hash

/-! ## Writing -/

theorem C13_write_refuses_dir (ns : List (List Nat)) (t now : Nat) :
    openWrite (.dir ns t) now = .error .alreadyExists := rfl

theorem C13_write_creates_or_truncates (st : PathSt) (now : Nat)
    (h : st = .absent ∨ ∃ c t, st = .file c t) :
    openWrite st now = .ok (.file [] now) := by
  rcases h with h | ⟨c, t, h⟩ <;> subst h <;> rfl

/-- exact characterisation of the writer's outcome -/
theorem C13_write_ok_iff (st : PathSt) (now : Nat) :
    (∃ st', openWrite st now = .ok st') ↔ ∀ ns t, st ≠ .dir ns t := by
  cases st <;> simp [openWrite]

/-- after a successful write, all three checkers stamp the truncated file via the writer route
exactly as from the path, and the checks are consistent -/
theorem C13_write_then_stamp (hash : List Nat → Nat) (st st' : PathSt) (now : Nat)
    (h : openWrite st now = .ok st') :
    st' = .file [] now ∧
    existsStampWriter st' = true ∧ modifiedStampWriter st' = some now ∧
    hashStampWriter hash st' = some (hash []) ∧
    existsCheck st' (existsStampWriter st') = true ∧
    modifiedCheck st' (modifiedStampWriter st') = true ∧
    hashCheck hash st' (hashStampWriter hash st') = true := by
  cases st <;> simp [openWrite] at h <;> subst h <;>
    simp [existsStampWriter, modifiedStampWriter, hashStampWriter, existsCheck, modifiedCheck,
      hashCheck, exists_, mtime, hashOf]

/-! ## Non-vacuity: concrete data -/

section Examples

/-- executable stand-in for SHA-256 in the examples -/
private def h0 : List Nat → Nat := fun l => l.foldl (fun a x => a * 257 + x + 1) 7

private def f3 : PathSt := .file [104, 105, 33] 1000          -- "hi!"
private def f3' : PathSt := .file [104, 105, 63] 1000         -- "hi?", same mtime
private def f3t : PathSt := .file [104, 105, 33] 2000         -- touched
private def f0 : PathSt := .file [] 5                         -- empty file
private def d2 : PathSt := .dir [[97], [98]] 300              -- {"a", "b"}
private def d1 : PathSt := .dir [[97, 98]] 300                -- {"ab"}
private def d0 : PathSt := .dir [] 300                        -- empty directory

-- routes agree
example : (existsStampReader (openRead f3)).1 = true ∧ existsStampWriter f3 = true ∧
    existsStamp f3 = true := by decide
example : (existsStampReader (openRead .absent)).1 = false ∧ existsStamp .absent = false := by
  decide
example : (modifiedStampReader (openRead d2)).1 = some 300 ∧ modifiedStampWriter d2 = some 300 ∧
    modifiedStamp d2 = some 300 := by decide
example : (hashStampReader h0 (openRead f3)).1 = hashStamp h0 f3 ∧
    hashStampWriter h0 f3 = hashStamp h0 f3 ∧ (hashStamp h0 f3).isSome = true := by decide
example : (hashStampReader h0 (openRead d2)).1 = hashStamp h0 d2 ∧
    (hashStamp h0 d2).isSome = true := by decide
example : (hashStampReader h0 (openRead .absent)).1 = none ∧ hashStamp h0 .absent = none := by
  decide
-- the reader route needs a reader at the start: a reader at position 1 stamps only the rest
example : (hashStampReader h0 { st := f3, pos := 1 }).1 = some (h0 [105, 33]) ∧
    (hashStampReader h0 { st := f3, pos := 1 }).1 ≠ hashStamp h0 f3 := by decide

-- untouched ⇒ consistent
example : existsCheck f3 (existsStamp f3) = true ∧ existsCheck d2 (existsStamp d2) = true ∧
    existsCheck .absent (existsStamp .absent) = true := by decide
example : modifiedCheck f3 (modifiedStamp f3) = true ∧ modifiedCheck d0 (modifiedStamp d0) = true ∧
    modifiedCheck .absent (modifiedStamp .absent) = true := by decide
example : hashCheck h0 f3 (hashStamp h0 f3) = true ∧ hashCheck h0 f0 (hashStamp h0 f0) = true ∧
    hashCheck h0 d2 (hashStamp h0 d2) = true ∧ hashCheck h0 d0 (hashStamp h0 d0) = true ∧
    hashCheck h0 .absent (hashStamp h0 .absent) = true := by decide

-- changes are detected (both sides of the characterisations occur)
example : existsCheck .absent (existsStamp f3) = false ∧ existsCheck d2 (existsStamp .absent) = false ∧
    existsCheck d2 (existsStamp f3) = true := by decide
example : modifiedCheck f3t (modifiedStamp f3) = false ∧ modifiedCheck f3' (modifiedStamp f3) = true ∧
    modifiedCheck .absent (modifiedStamp f3) = false := by decide
example : hashCheck h0 f3' (hashStamp h0 f3) = false ∧ hashCheck h0 f3t (hashStamp h0 f3) = true ∧
    hashCheck h0 .absent (hashStamp h0 f3) = false ∧ hashCheck h0 f3 (hashStamp h0 .absent) = false ∧
    hashCheck h0 f0 (hashStamp h0 .absent) = false := by decide
example : hashCheck h0 d1 (hashStamp h0 d2) = false ∧ hashCheck h0 d0 (hashStamp h0 d2) = false ∧
    hashCheck h0 (.dir [[97], [98]] 999) (hashStamp h0 d2) = true := by decide
-- the hypotheses of `C13_hash_dir_names` are satisfiable by these listings
example : (∀ n ∈ [[97], [98]], (0 : Nat) ∉ n) ∧ (∀ n ∈ [[97, 98]], (0 : Nat) ∉ n) := by decide
example : dirBytes [[97], [98]] = [97, 0, 98, 0] ∧ dirBytes [[97, 98]] = [97, 98, 0] := by decide
-- the NUL-freeness hypothesis is needed: with a NUL inside a name the listings collide
example : dirBytes [[97, 0, 98]] = dirBytes [[97], [98]] ∧ [[97, 0, 98]] ≠ [[97], [98]] := by
  decide
-- kind change file <-> directory is not claimed: this one is *not* detected, for any hash
example : hashCheck h0 (.file [97, 0, 98, 0] 1) (hashStamp h0 d2) = true := by decide

/-- the unrepaired directory hash input (defect F2): names concatenated without terminator -/
private def dirBytesUnterminated (names : List (List Nat)) : List Nat := names.flatMap id

/-- WITHOUT the terminator the listings `{"a","b"}` and `{"ab"}` collide, so no hash function
whatsoever could tell them apart; with the terminator they differ. -/
example : dirBytesUnterminated [[97], [98]] = dirBytesUnterminated [[97, 98]] ∧
    [[97], [98]] ≠ [[97, 98]] ∧ dirBytes [[97], [98]] ≠ dirBytes [[97, 98]] := by decide

-- reader left at the start
example : (hashStampReader h0 (openRead f3)).2 = { st := f3, pos := 0 } := by decide
example : ((hashStampReader h0 (openRead f3)).2.readToEnd).1 = [104, 105, 33] := by decide
-- the hashing really moved the reader to the end before the rewind
example : ((openRead f3).readToEnd).2.pos = 3 := by decide
example : (hashStampReader h0 { st := f3, pos := 2 }).2.pos = 0 ∧
    ((hashStampReader h0 { st := f3, pos := 2 }).2.readToEnd).1 = [104, 105, 33] := by decide
example : (existsStampReader { st := f3, pos := 2 }).2 = { st := f3, pos := 2 } ∧
    (modifiedStampReader { st := f3, pos := 2 }).2 = { st := f3, pos := 2 } := by decide

-- writing
example : openWrite d2 7 = .error .alreadyExists ∧ openWrite d0 7 = .error .alreadyExists :=
  ⟨rfl, rfl⟩
example : openWrite .absent 7 = .ok (.file [] 7) ∧ openWrite f3 7 = .ok (.file [] 7) :=
  ⟨rfl, rfl⟩
example : hashStampWriter h0 (.file [] 7) = some 7 ∧ modifiedStampWriter (.file [] 7) = some 7 ∧
    existsStampWriter (.file [] 7) = true := by decide

end Examples

end PieModel
