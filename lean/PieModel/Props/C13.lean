import PieModel.Lib.FileRes
namespace PieModel
theorem C13_placeholder : True := trivial
end PieModel
