import PieModel.Build.Pie
namespace PieModel
theorem C13_placeholder : True := trivial
end PieModel
