/-
Property C05, global clause, for programs with STATIC ROLES:
"a build that returns leaves every reader of a generated resource (transitively) dependent on the
task that generated it" — after EVERY history (external changes, top-down sessions, bottom-up
builds followed by requires, any of them possibly aborted), for every checker semantics and every
fuel.  (For role-changing programs the clause is false on the real code: finding K4,
`C05_history_breaks_noHidden`.)

The proof reads `Store.NoHidden` off the static-role store invariant `RolesInv`, which
`C20_static_history_inv` establishes for every history.
-/
import PieModel.Props.C05Inv
import PieModel.Props.C20
import PieModel.Build.StackTD

namespace PieModel

variable {ro : Roles}

/-- A store whose edges respect static roles has no hidden dependency: every recorded reader of a
node has a direct edge to every recorded writer of it. -/
theorem RolesInv.noHidden {st : Store} (h : RolesInv ro st) : st.NoHidden := by
  intro dst w y hw hy
  obtain ⟨dw, hdw, hew⟩ := (h.wf.mem_writersTo_iff w dst).mp hw
  obtain ⟨dy, hdy, hey⟩ := (h.wf.mem_tasksReadingFrom_iff y dst).mp hy
  cases dw with
  | reserved => cases hdw
  | require _ _ _ => cases hdw
  | read _ _ _ => cases hdw
  | write r c s =>
    cases dy with
    | reserved => cases hdy
    | require _ _ _ => cases hdy
    | write _ _ _ => cases hdy
    | read r' c' s' =>
      -- both edges end at `dst`, so they name the same resource
      have h1 : st.resOf dst = some r := h.wf.edge_dst _ _ _ hew
      have h2 : st.resOf dst = some r' := h.wf.edge_dst _ _ _ hey
      have hrr : r' = r := by rw [h1] at h2; exact (Option.some.inj h2).symm
      subst hrr
      obtain ⟨tw, htw⟩ := h.wf.edge_src _ _ _ hew
      have hgen : ro.gen r' = some tw := h.write _ _ _ _ _ _ hew htw
      obtain ⟨nw, dep, hnw, hed⟩ := h.read _ _ _ _ _ _ hey hgen
      have : nw = w := h.wf.taskOf_inj hnw htw
      subst this
      refine Dag.Reach.edge ?_
      show nw ∈ st.g.childrenOf y
      rw [h.wf.gwf.child_iff]
      unfold Dag.getEdgeData at hed
      rw [hed]; rfl

variable (sem : Sem) (body : Nat → Prog) (hwf : WellFormedBody ro body)
include hwf

/-- **C05 (global clause, static roles).**  After every history the store has no hidden
dependency: every task with a recorded read of a resource reaches (here: by a direct require
edge) every task with a recorded write of it. -/
theorem C05_static_noHidden_history (fuel : Nat) (steps : List HStep) :
    (runHistory sem body fuel steps).store.NoHidden :=
  (C20_static_history_inv (ro := ro) sem hwf fuel steps).noHidden

omit hwf in
/-- The same for the store handed to any later session. -/
theorem C05_static_noHidden_of_rolesInv (p : PieSt) (h : RolesInv ro p.store) :
    p.newSession.store.NoHidden := h.noHidden

end PieModel

namespace PieModel

/-! ### non-vacuity: the static-role program of `Props/C20.lean` (task 3 generates resource 10,
task 1 requires 3 and reads 10) after a history with sessions, external changes and a bottom-up
build: a reader and a writer of resource 10 exist, and the reader reaches the writer. -/

def c05SHist : List HStep := c20H3 ++ [.bottomUp [1, 0] [1, 2]]

example : (runHistory stdSem c20Body 60 c05SHist).store.NoHidden :=
  C05_static_noHidden_history stdSem c20Body c20Body_wf 60 c05SHist

/-- ... and the statement is not vacuous there: resource 10's node has a recorded writer and a
recorded reader. -/
example : ∃ dst, (runHistory stdSem c20Body 60 c05SHist).store.writersTo dst ≠ [] ∧
    (runHistory stdSem c20Body 60 c05SHist).store.tasksReadingFrom dst ≠ [] := by
  refine ⟨((runHistory stdSem c20Body 60 c05SHist).store.getOrCreateResNode 10).2, ?_⟩
  with_unfolding_all decide

end PieModel
