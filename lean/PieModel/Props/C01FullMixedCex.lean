/-
C01 in full over MIXED histories is FALSE without further hypotheses: a kernel-checked
counterexample.

Claim refuted: "for every checker semantics with total stampers, every static-role program table
whose continuations respect their checkers, with one checker per target and exact write checkers:
after every history of external changes, top-down sessions and BOTTOM-UP builds (any of them
aborted) the store invariant `FaithfulO` holds, and every top-down session that returns yields the
from-scratch outputs".

The counterexample uses the checker table `totalSem` of the harness, whose resource checker 17
(`FailWhen(7)`: exact stamps, but `check` FAILS while the content is 7) is not reflexive, and a
task that requires the same task twice on one path.  Six tasks, four resources:

* task 5 (`Z`) reads source 2, panics on 99, else writes 7 into the generated resource 10;
* task 4 (`M`) reads source 1, panics on 99, else requires `Z`, reads resource 10 (checker 17)
  and returns the content of source 1;
* task 3 (`U`) requires `M` and returns its output;  task 2 (`V`) requires `U` and returns it;
* task 1 (`N`) requires `U` (output `a`), then `M`, then `V`, then `U` AGAIN (output `b`) and
  returns `100·a + b`;
* task 0 (`Q`) reads source 3; unless it holds 99 it requires `N` and panics.

History (`mixedCexHistory`):

    change 1 := 1;  change 2 := 5;  change 3 := 99
    session [2]        -- V, U, M, Z built: outputs 1, 1, 1, 0; resource 10 := 7
    session [0]        -- Q = 0
    change 1 := 99;  session [4]   -- M re-executed, panics: ABORTED, M has no output
    change 2 := 99;  session [5]   -- Z re-executed, panics: ABORTED, Z has no output but keeps
                                   --   its read edge to source 2 (an "orphan")
    change 1 := 2;  change 2 := 3;  change 3 := 1
    bottomUp [2, 3] []             -- changed set INCOMPLETE (source 1 is not reported)

In the bottom-up build `Z` (through its stale read edge) and `Q` are scheduled; `Q` is popped and
requires `N` (new, executed at once).  `N` requires `U`: has an output, nothing scheduled below it
(`M` has no edges to `Z` any more) — its STALE output 1 is returned, `U` is marked consistent.
`N` requires `M`: no output, executed at once; it requires `Z`: no output, executed at once —
**staying in the queue** — and reads resource 10; `M` = 2.  `N` requires `V`: has an output, and now
`Z` is scheduled below it: `Z` is popped and executed AGAIN (same output, same content), but the
non-reflexive checker 17 of `M`'s read of resource 10 fails, so `M` is scheduled, popped, executed
again (output 2), which is inconsistent with the stale stamp of `U`, so `U` — although marked
consistent — is scheduled, popped and executed: its output changes from 1 to 2; then `V` = 2.
`N` requires `U` again: consistent, output 2 — `update_require_dependency` OVERWRITES the stamp
recorded by the first require (`int 1`) with `int 2`, although the body of `N` continued with 1.
`N` returns 102 with the dependency list `[require U (int 2), require M (int 2), require V (int 2)]`,
which replays to 202.  Then `Q` panics: the build is ABORTED, `N` keeps its record.

The next top-down session requiring `N` finds all three dependencies consistent and returns the
stored 102; the from-scratch build on the same resources returns 202.
-/
import PieModel.Props.C01Full
import PieModel.Props.C20
import PieModel.Props.C03

namespace PieModel

open DecEqAux

def mixedCexRoles : Roles := { rank := fun t => t, gen := fun r => if r = 10 then some 5 else none }

def mixedCexBody : Nat → Prog
  | 0 => .read 3 0 (fun h => match h with
      | .ok (some 99) => .ret 0
      | _ => .req 1 0 (fun _ => .panic))
  | 1 => .req 3 0 (fun a => .req 4 0 (fun _ => .req 2 0 (fun _ => .req 3 0 (fun b =>
      .ret (a * 100 + b)))))
  | 2 => .req 3 0 (fun a => .ret a)
  | 3 => .req 4 0 (fun a => .ret a)
  | 4 => .read 1 0 (fun y => match y with
      | .ok (some 99) => .panic
      | .ok (some y) => .req 5 0 (fun _ => .read 10 17 (fun _ => .ret y))
      | _ => .ret 0)
  | 5 => .read 2 0 (fun g => match g with
      | .ok (some 99) => .panic
      | _ => .write 10 0 (some 7) (fun _ => .ret 0))
  | _ => .ret 0

def mixedCexHistory : List HStep :=
  [.change 1 (some 1), .change 2 (some 5), .change 3 (some 99),
   .session [2], .session [0],
   .change 1 (some 99), .session [4],
   .change 2 (some 99), .session [5],
   .change 1 (some 2), .change 2 (some 3), .change 3 (some 1),
   .bottomUp [2, 3] []]

/-! ### the hypotheses of C01 in full hold -/

theorem mixedCexBody_wf : WellFormedBody mixedCexRoles mixedCexBody := by
  intro t
  match t with
  | 0 =>
    refine ⟨by simp [mixedCexRoles], by simp [mixedCexRoles], fun x => ?_⟩
    dsimp only
    split
    · trivial
    · exact ⟨by simp [mixedCexRoles], fun _ => trivial⟩
  | 1 => simp [StaticRoles, StaticRolesFrom, mixedCexBody, mixedCexRoles]
  | 2 => simp [StaticRoles, StaticRolesFrom, mixedCexBody, mixedCexRoles]
  | 3 => simp [StaticRoles, StaticRolesFrom, mixedCexBody, mixedCexRoles]
  | 4 =>
    refine ⟨by simp [mixedCexRoles], by simp [mixedCexRoles], fun x => ?_⟩
    dsimp only
    split
    · trivial
    · exact ⟨by simp [mixedCexRoles], fun _ =>
        ⟨by simp [mixedCexRoles], by simp [mixedCexRoles], fun _ => trivial⟩⟩
    · trivial
  | 5 =>
    refine ⟨by simp [mixedCexRoles], by simp [mixedCexRoles], fun x => ?_⟩
    dsimp only
    split
    · trivial
    · exact ⟨by simp [mixedCexRoles], by simp, fun _ => trivial⟩
  | _ + 6 => trivial

theorem mixedCexBody_respects : ∀ t, Respects totalSem (mixedCexBody t) := by
  intro t
  match t with
  | 0 =>
    refine ⟨fun v v' s h1 h2 => by rw [totalSem_rcheck0 h1 h2], fun x => ?_⟩
    dsimp only
    split
    · trivial
    · exact ⟨fun _ _ _ => rfl, fun _ => trivial⟩
  | 1 =>
    exact ⟨fun o o' h => by rw [totalSem_ocheck0 h], fun _ => ⟨fun _ _ _ => rfl, fun _ =>
      ⟨fun _ _ _ => rfl, fun _ => ⟨fun o o' h => by rw [totalSem_ocheck0 h], fun _ => trivial⟩⟩⟩⟩
  | 2 => exact ⟨fun o o' h => by rw [totalSem_ocheck0 h], fun _ => trivial⟩
  | 3 => exact ⟨fun o o' h => by rw [totalSem_ocheck0 h], fun _ => trivial⟩
  | 4 =>
    refine ⟨fun v v' s h1 h2 => by rw [totalSem_rcheck0 h1 h2], fun x => ?_⟩
    dsimp only
    split
    · trivial
    · exact ⟨fun _ _ _ => rfl, fun _ => ⟨fun _ _ _ _ _ => rfl, fun _ => trivial⟩⟩
    · trivial
  | 5 =>
    refine ⟨fun v v' s h1 h2 => by rw [totalSem_rcheck0 h1 h2], fun x => ?_⟩
    dsimp only
    split
    · trivial
    · exact fun _ => trivial
  | _ + 6 => trivial

theorem mixedCexBody_oneChecker : ∀ t, OneChecker (mixedCexBody t) := by
  intro t
  match t with
  | 0 =>
    refine ⟨fun c' h => (nomatch h), fun x => ?_⟩
    dsimp only
    split
    · trivial
    · exact ⟨fun c' h => (nomatch h), fun _ => trivial⟩
  | 1 => simp [OneChecker, OneCk, mixedCexBody]
  | 2 => simp [OneChecker, OneCk, mixedCexBody]
  | 3 => simp [OneChecker, OneCk, mixedCexBody]
  | 4 =>
    refine ⟨fun c' h => (nomatch h), fun x => ?_⟩
    dsimp only
    split
    · trivial
    · exact ⟨fun c' h => (nomatch h), fun _ => ⟨by simp, fun _ => trivial⟩⟩
    · trivial
  | 5 =>
    refine ⟨fun c' h => (nomatch h), fun x => ?_⟩
    dsimp only
    split
    · trivial
    · exact ⟨by simp, fun _ => trivial⟩
  | _ + 6 => trivial

theorem mixedCexBody_writeExact : ∀ t, WriteExact totalSem (mixedCexBody t) := by
  intro t
  match t with
  | 0 =>
    refine fun x => ?_
    dsimp only
    split
    · trivial
    · exact fun _ => trivial
  | 1 => exact fun _ _ _ _ => trivial
  | 2 => exact fun _ => trivial
  | 3 => exact fun _ => trivial
  | 4 =>
    refine fun x => ?_
    dsimp only
    split
    · trivial
    · exact fun _ _ => trivial
    · trivial
  | 5 =>
    refine fun x => ?_
    dsimp only
    split
    · trivial
    · exact ⟨fun x x' s h1 h2 => totalSem_rcheck0 h1 h2, fun _ => trivial⟩
  | _ + 6 => trivial

/-! ### the run -/

/-- The `Pie` before the bottom-up build. -/
def mixedCexPie0 : PieSt := runHistory totalSem mixedCexBody 25 (mixedCexHistory.take 12)

/-- The `Pie` after the whole history. -/
def mixedCexPie : PieSt := runHistory totalSem mixedCexBody 25 mixedCexHistory

/-- Before the bottom-up build: `V`, `U`, `Q` have (stale) outputs, `M` and `Z` none. -/
example : mixedCexPie0.store.taskNode.map
      (fun p => (p.1, mixedCexPie0.store.taskOutput p.2, mixedCexPie0.store.depsFrom p.2)) =
    [(2, some 1, [.require 3 0 (.int 1)]), (3, some 1, [.require 4 0 (.int 1)]),
     (4, none, [.read 1 0 (.optInt (some 99))]), (5, none, [.read 2 0 (.optInt (some 99))]),
     (0, some 0, [.read 3 0 (.optInt (some 99))])] := by
  with_unfolding_all decide

set_option maxRecDepth 8000 in
/-- The bottom-up build (incomplete changed set) aborts with the panic of `Q`, after having
executed `Q, N, M, Z, Z, M, U, V`. -/
example : (bottomUpBuild totalSem mixedCexBody 25 mixedCexPie0.newSession [2, 3]).2.toOption = none ∧
    execsOf (bottomUpBuild totalSem mixedCexBody 25 mixedCexPie0.newSession [2, 3]).1.trace =
      [0, 1, 4, 5, 5, 4, 3, 2] := by
  constructor <;> with_unfolding_all decide

set_option maxRecDepth 4000 in
/-- After the history: task 1 (`N`) has output 102 and a dependency list that replays to 202. -/
theorem mixedCexPie_record : mixedCexPie.store.taskNode.map
      (fun p => (p.1, mixedCexPie.store.taskOutput p.2, mixedCexPie.store.depsFrom p.2)) =
    [(2, some 2, [.require 3 0 (.int 2)]), (3, some 2, [.require 4 0 (.int 2)]),
     (4, some 2, [.read 1 0 (.optInt (some 2)), .require 5 0 (.int 0),
        .read 10 17 (.optInt (some 7))]),
     (5, some 0, [.read 2 0 (.optInt (some 3)), .write 10 0 (.optInt (some 7))]),
     (0, none, [.read 3 0 (.optInt (some 1)), .require 1 0 (.int 102)]),
     (1, some 102, [.require 3 0 (.int 2), .require 4 0 (.int 2), .require 2 0 (.int 2)])] := by
  with_unfolding_all decide

theorem mixedCexPie_fs : mixedCexPie.fs = [(1, 2), (2, 3), (3, 1), (10, 7)] := by
  with_unfolding_all decide

/-- The next top-down session requiring `N` returns the stored 102 ... -/
theorem mixedCexPie_session :
    (requireAll totalSem mixedCexBody 25 mixedCexPie.newSession [1]).2 = .ok [102] := by
  with_unfolding_all decide

/-- ... the from-scratch build on the same resources returns 202. -/
theorem mixedCexPie_clean :
    (cleanBuild totalSem mixedCexBody 25 mixedCexPie.fs [1]).2 = .ok [202] := by
  with_unfolding_all decide

/-! ### consequences -/

/-- The store invariant `FaithfulO` FAILS after the history: the record of task 1 does not
replay its body to its stored output (all other parts of the `Pie` invariant hold, so with
`FaithfulO` the session would have to agree with the clean build). -/
theorem mixedCex_not_faithfulO : ¬ FaithfulO totalSem mixedCexBody mixedCexPie.store := by
  intro h
  have hp : PieInvW mixedCexRoles totalSem mixedCexBody mixedCexPie :=
    ⟨C19_store_wf_history totalSem mixedCexBody 25 mixedCexHistory,
      C20_static_history_inv totalSem mixedCexBody_wf 25 mixedCexHistory, h,
      by rw [mixedCexPie_fs]; decide⟩
  have := (C01_full_equals_clean_build totalSem_stampTotal mixedCexBody_wf mixedCexBody_respects
    mixedCexBody_oneChecker mixedCexBody_writeExact 25 25 mixedCexPie hp [1] _ _ _ _
    (pair_of_snd mixedCexPie_session) (pair_of_snd mixedCexPie_clean)).1
  exact absurd this (by decide)

/-- Hence the `Pie` invariant of C01 in full fails after this mixed history ... -/
theorem mixedCex_not_pieInv : ¬ PieInvW mixedCexRoles totalSem mixedCexBody mixedCexPie :=
  fun h => mixedCex_not_faithfulO h.faithful

/-- ... and the top-down session that follows does NOT return the from-scratch output. -/
theorem mixedCex_session_ne_clean :
    ∃ os os', (requireAll totalSem mixedCexBody 25 mixedCexPie.newSession [1]).2 = .ok os ∧
      (cleanBuild totalSem mixedCexBody 25 mixedCexPie.fs [1]).2 = .ok os' ∧ os ≠ os' :=
  ⟨[102], [202], mixedCexPie_session, mixedCexPie_clean, by decide⟩

/-- **The statement "the invariants of C01 in full hold after every mixed history" is false**
under the hypotheses of `C01_full_history` (`StampTotal`, `WellFormedBody`, `Respects`,
`OneChecker`, `WriteExact`). -/
theorem C01_pieInv_mixed_history_false :
    ¬ (∀ (ro : Roles) (sem : Sem) (body : Nat → Prog), StampTotal sem → WellFormedBody ro body →
      (∀ t, Respects sem (body t)) → (∀ t, OneChecker (body t)) → (∀ t, WriteExact sem (body t)) →
      ∀ (fuel : Nat) (steps : List HStep), PieInvW ro sem body (runHistory sem body fuel steps)) :=
  fun hall => mixedCex_not_pieInv (hall mixedCexRoles totalSem mixedCexBody totalSem_stampTotal
    mixedCexBody_wf mixedCexBody_respects mixedCexBody_oneChecker mixedCexBody_writeExact 25
    mixedCexHistory)

/-- **C01 itself is false over mixed histories** under these hypotheses: a top-down session
after a mixed history may return an output that differs from the from-scratch build on the same
resource state. -/
theorem C01_full_mixed_history_false :
    ¬ (∀ (ro : Roles) (sem : Sem) (body : Nat → Prog), StampTotal sem → WellFormedBody ro body →
      (∀ t, Respects sem (body t)) → (∀ t, OneChecker (body t)) → (∀ t, WriteExact sem (body t)) →
      ∀ (fuel fuel' : Nat) (steps : List HStep) (roots : List Nat) (s' sc : Sess) (os os' : List Int),
        requireAll sem body fuel (runHistory sem body fuel steps).newSession roots = (s', .ok os) →
        cleanBuild sem body fuel' (runHistory sem body fuel steps).fs roots = (sc, .ok os') →
        os = os') := by
  intro hall
  have := hall mixedCexRoles totalSem mixedCexBody totalSem_stampTotal mixedCexBody_wf
    mixedCexBody_respects mixedCexBody_oneChecker mixedCexBody_writeExact 25 25 mixedCexHistory [1]
    _ _ [102] [202] (pair_of_snd mixedCexPie_session) (pair_of_snd mixedCexPie_clean)
  exact absurd this (by decide)

/-- The checker table used is not reflexive: resource checker 17 rejects (fails on) content 7
against the stamp of content 7. -/
theorem totalSem_not_reflexive : ¬ Reflexive totalSem := by
  intro h
  have := h.2 17 (some 7) (.optInt (some 7)) rfl
  simp [totalSem, stdSem, stdRCheck] at this

end PieModel
