import PieModel.Build.Pie
namespace PieModel
theorem C05_placeholder : True := trivial
end PieModel
