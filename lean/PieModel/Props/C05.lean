/-
Property C05 (local detection logic): hidden dependencies.  A read of a resource whose recorded
writer is not (transitively) required by the reader aborts; a write to a resource one of whose
recorded readers does not (transitively) require the writer aborts — in `write` before the
resource is modified.  Exact characterisations of when these aborts happen, and of all abort
kinds `doRead`/`doWrite`/`doWrote` can produce.

Unfolding work: `PieModel/Build/Proofs/{SessionLemmas,ValidateWrite}.lean`.
-/
import PieModel.Build.Proofs.ValidateWrite
import PieModel.Build.Proofs.DecEq
import PieModel.Build.StdSem
import PieModel.Build.Script

namespace PieModel
open Sess SessL

variable (sem : Sem)

/-! ### reads -/

/-- Reading a resource whose recorded writer `w` is not transitively required by the reading task:
abort `hidden`.  Resource state and store (after node lookup) are as before, only `read_start` was
reported, no stamp taken, no dependency added. -/
theorem C05_read_hidden_abort (s : Sess) (r c cur w : Nat) (st : Store) (dst : Nat)
    (hcur : s.cur = some cur) (hn : s.store.getOrCreateResNode r = (st, dst))
    (hw : st.taskWritingTo dst = some w) (hct : st.containsTransitive cur w = false) :
    doRead sem s r c =
      ({ s with store := st, trace := s.trace ++ [.readStart r c] }, .abort .hidden) := by
  rw [doRead_eq sem s r c cur st dst hcur hn]
  have : readHidden st cur dst = true := (readHidden_eq_true_iff st cur dst).mpr ⟨w, hw, hct⟩
  simp [this]

/-- Exactly when `doRead` aborts with `hidden`. -/
theorem C05_read_hidden_iff (s : Sess) (r c : Nat) :
    (doRead sem s r c).2 = .abort .hidden ↔
      ∃ cur, s.cur = some cur ∧
        ∃ w, (s.store.getOrCreateResNode r).1.taskWritingTo (s.store.getOrCreateResNode r).2 = some w ∧
          (s.store.getOrCreateResNode r).1.containsTransitive cur w = false := by
  cases hcur : s.cur with
  | none => simp [doRead_no_cur sem s r c hcur]
  | some cur =>
    rcases hp : s.store.getOrCreateResNode r with ⟨st, dst⟩
    rw [doRead_abort_iff sem s r c cur st dst .hidden hcur hp, readHidden_eq_true_iff]
    simp

/-- `hidden` is the only abort kind of `doRead` besides the store-corruption panic `bug 1`, and
the latter needs a dead endpoint. -/
theorem C05_read_abort_kinds (s s' : Sess) (r c : Nat) (a : Abort)
    (h : doRead sem s r c = (s', .abort a)) :
    a = .hidden ∨
    (a = .bug 1 ∧ ∃ cur, s.cur = some cur ∧
      ((s.store.getOrCreateResNode r).1.g.containsNode cur = false ∨
       (s.store.getOrCreateResNode r).1.g.containsNode (s.store.getOrCreateResNode r).2 = false)) := by
  have h2 : (doRead sem s r c).2 = .abort a := by rw [h]
  cases hcur : s.cur with
  | none => rw [doRead_no_cur sem s r c hcur] at h2; cases h2
  | some cur =>
    rcases hp : s.store.getOrCreateResNode r with ⟨st, dst⟩
    rw [doRead_abort_iff sem s r c cur st dst a hcur hp] at h2
    rcases h2 with ⟨rfl, _⟩ | ⟨rfl, _, stamp, _, hb⟩
    · exact .inl rfl
    · exact .inr ⟨rfl, cur, rfl, (addDependency_bug_iff st cur dst _).mp hb⟩

/-- A task that wrote a resource and then reads it aborts against itself (`n` never transitively
reaches `n`). -/
theorem C05_read_own_write_aborts (s : Sess) (r c cur : Nat) (st : Store) (dst : Nat)
    (hcur : s.cur = some cur) (hn : s.store.getOrCreateResNode r = (st, dst))
    (hw : st.taskWritingTo dst = some cur) :
    (doRead sem s r c).2 = .abort .hidden := by
  rw [C05_read_hidden_abort sem s r c cur cur st dst hcur hn hw (st.containsTransitive_self cur)]

/-- No abort if the writer is transitively required (or there is none) and the store is sound. -/
theorem C05_read_visible_ok (s : Sess) (r c cur : Nat) (st : Store) (dst : Nat)
    (hcur : s.cur = some cur) (hn : s.store.getOrCreateResNode r = (st, dst))
    (hvis : ∀ w, st.taskWritingTo dst = some w → st.containsTransitive cur w = true) :
    (doRead sem s r c).2 ≠ .abort .hidden := by
  rw [Ne, C05_read_hidden_iff, hn]
  rintro ⟨cur', hc', w, hw, hct⟩
  rw [hcur] at hc'; cases hc'
  rw [hvis w hw] at hct; cases hct

/-! ### writes -/

/-- Writing a resource without recorded writer but with a recorded reader `y` that does not
transitively require the writing task: abort `hidden`, before the resource is modified. -/
theorem C05_write_hidden_abort (s : Sess) (r c cur y : Nat) (v : Option Int) (st : Store) (dst : Nat)
    (hcur : s.cur = some cur) (hn : s.store.getOrCreateResNode r = (st, dst))
    (hw : st.taskWritingTo dst = none) (hy : y ∈ st.tasksReadingFrom dst)
    (hct : st.containsTransitive y cur = false) :
    doWrite sem s r c v =
      ({ s with store := st, trace := s.trace ++ [.writeStart r c] }, .abort .hidden) :=
  doWrite_validate_abort sem s r c cur v st dst _ hcur hn
    ((validateWrite_hidden_iff st cur dst).mpr ⟨hw, y, hy, hct⟩)

/-- `written_to`: same verdict, the content is already modified. -/
theorem C05_wrote_hidden_abort (s : Sess) (r c cur y : Nat) (v : Option Int) (st : Store) (dst : Nat)
    (hcur : s.cur = some cur) (hn : s.store.getOrCreateResNode r = (st, dst))
    (hw : st.taskWritingTo dst = none) (hy : y ∈ st.tasksReadingFrom dst)
    (hct : st.containsTransitive y cur = false) :
    doWrote sem s r c v =
      ({ s.setContent r v with store := st, trace := s.trace ++ [.writeStart r c] }, .abort .hidden) :=
  doWrote_validate_abort sem s r c cur v st dst _ hcur hn
    ((validateWrite_hidden_iff st cur dst).mpr ⟨hw, y, hy, hct⟩)

/-- Exactly when `doWrite` aborts with `hidden`. -/
theorem C05_write_abort_iff (s : Sess) (r c : Nat) (v : Option Int) :
    (doWrite sem s r c v).2 = .abort .hidden ↔
      ∃ cur, s.cur = some cur ∧
        (s.store.getOrCreateResNode r).1.taskWritingTo (s.store.getOrCreateResNode r).2 = none ∧
        ∃ y ∈ (s.store.getOrCreateResNode r).1.tasksReadingFrom (s.store.getOrCreateResNode r).2,
          (s.store.getOrCreateResNode r).1.containsTransitive y cur = false := by
  cases hcur : s.cur with
  | none => simp [doWrite_no_cur sem s r c v hcur]
  | some cur =>
    rcases hp : s.store.getOrCreateResNode r with ⟨st, dst⟩
    rw [doWrite_abort_iff sem s r c cur v st dst .hidden hcur hp, validateWrite_hidden_iff]
    simp

theorem C05_wrote_abort_iff (s : Sess) (r c : Nat) (v : Option Int) :
    (doWrote sem s r c v).2 = .abort .hidden ↔
      ∃ cur, s.cur = some cur ∧
        (s.store.getOrCreateResNode r).1.taskWritingTo (s.store.getOrCreateResNode r).2 = none ∧
        ∃ y ∈ (s.store.getOrCreateResNode r).1.tasksReadingFrom (s.store.getOrCreateResNode r).2,
          (s.store.getOrCreateResNode r).1.containsTransitive y cur = false := by
  cases hcur : s.cur with
  | none => simp [doWrote_no_cur sem s r c v hcur]
  | some cur =>
    rcases hp : s.store.getOrCreateResNode r with ⟨st, dst⟩
    rw [doWrote_abort_iff sem s r c cur v st dst .hidden hcur hp, validateWrite_hidden_iff]
    simp

/-- A task that read a resource and then writes it aborts against itself. -/
theorem C05_self_read_write_aborts (s : Sess) (r c cur : Nat) (v : Option Int) (st : Store) (dst : Nat)
    (hcur : s.cur = some cur) (hn : s.store.getOrCreateResNode r = (st, dst))
    (hw : st.taskWritingTo dst = none) (hy : cur ∈ st.tasksReadingFrom dst) :
    (doWrite sem s r c v).2 = .abort .hidden := by
  rw [C05_write_hidden_abort sem s r c cur cur v st dst hcur hn hw hy (st.containsTransitive_self cur)]

/-- All abort kinds of `doWrite`: the two of `validate_write`, or the store-corruption panic
`bug 2`, which needs a dead endpoint. -/
theorem C05_write_abort_kinds (s s' : Sess) (r c : Nat) (v : Option Int) (a : Abort)
    (h : doWrite sem s r c v = (s', .abort a)) :
    a = .overlap ∨ a = .hidden ∨
    (a = .bug 2 ∧ ∃ cur, s.cur = some cur ∧
      ((s.store.getOrCreateResNode r).1.g.containsNode cur = false ∨
       (s.store.getOrCreateResNode r).1.g.containsNode (s.store.getOrCreateResNode r).2 = false)) := by
  have h2 : (doWrite sem s r c v).2 = .abort a := by rw [h]
  cases hcur : s.cur with
  | none => rw [doWrite_no_cur sem s r c v hcur] at h2; cases h2
  | some cur =>
    rcases hp : s.store.getOrCreateResNode r with ⟨st, dst⟩
    rw [doWrite_abort_iff sem s r c cur v st dst a hcur hp] at h2
    rcases h2 with hv | ⟨rfl, _, stamp, _, hb⟩
    · rcases validateWrite_kinds st cur dst a hv with rfl | rfl
      · exact .inl rfl
      · exact .inr (.inl rfl)
    · exact .inr (.inr ⟨rfl, cur, rfl, (addDependency_bug_iff st cur dst _).mp hb⟩)

/-! ### aborts precede modification

The statement "any `.abort` of `doWrite` has `s'.fs = s.fs`" is FALSE for an arbitrary (corrupt)
session: the panic `bug 2` ("BUG: source/destination node not found" in `add_dependency`) is
raised after the write function ran.  Counterexample below; the corrected statements are: the two
`validate_write` aborts precede the modification, and they are the only aborts when the current
task and the resource node are live nodes of the graph. -/

/-- Counterexample: `cur = some 5` in an empty graph. -/
def c05Corrupt : Sess := { cur := some 5 }

open DecEqAux in
example : (doWrite stdSem c05Corrupt 0 0 (some 1)).2 = .abort (.bug 2) ∧
    (doWrite stdSem c05Corrupt 0 0 (some 1)).1.fs = [(0, 1)] ∧ c05Corrupt.fs = [] := by
  decide +kernel

/-- Corrected (1): a hidden-dependency or overlap abort leaves the resource state untouched. -/
theorem C05_C06_abort_before_modification_corrected (s s' : Sess) (r c : Nat) (v : Option Int)
    (a : Abort) (h : doWrite sem s r c v = (s', .abort a)) (ha : a = .overlap ∨ a = .hidden) :
    s'.fs = s.fs ∧ s'.store = (s.store.getOrCreateResNode r).1 ∧
      s'.trace = s.trace ++ [.writeStart r c] := by
  have h2 : (doWrite sem s r c v).2 = .abort a := by rw [h]
  cases hcur : s.cur with
  | none => rw [doWrite_no_cur sem s r c v hcur] at h2; cases h2
  | some cur =>
    rcases hp : s.store.getOrCreateResNode r with ⟨st, dst⟩
    rw [doWrite_abort_iff sem s r c cur v st dst a hcur hp] at h2
    rcases h2 with hv | ⟨rfl, _⟩
    · rw [doWrite_validate_abort sem s r c cur v st dst a hcur hp hv] at h
      cases h
      exact ⟨rfl, rfl, rfl⟩
    · rcases ha with ha | ha <;> cases ha

/-- Corrected (2): if the executing task and the resource node are live nodes, *every* abort of
`doWrite` happens before the resource is modified. -/
theorem C05_C06_abort_before_modification_live (s s' : Sess) (r c : Nat) (v : Option Int) (a : Abort)
    (hlive : ∀ cur, s.cur = some cur →
      (s.store.getOrCreateResNode r).1.g.containsNode cur = true ∧
      (s.store.getOrCreateResNode r).1.g.containsNode (s.store.getOrCreateResNode r).2 = true)
    (h : doWrite sem s r c v = (s', .abort a)) :
    s'.fs = s.fs := by
  rcases C05_write_abort_kinds sem s s' r c v a h with rfl | rfl | ⟨_, cur, hcur, hdead⟩
  · exact (C05_C06_abort_before_modification_corrected sem s s' r c v _ h (.inl rfl)).1
  · exact (C05_C06_abort_before_modification_corrected sem s s' r c v _ h (.inr rfl)).1
  · obtain ⟨h₁, h₂⟩ := hlive cur hcur
    rcases hdead with hd | hd
    · rw [h₁] at hd; cases hd
    · rw [h₂] at hd; cases hd

/-! ### non-vacuity -/

open DecEqAux

/-- 0 writes resource 8; 1 reads 8 (without requiring 0); 2 requires 0 then 1 (hidden read);
3 requires 1 then 0 (hidden write); 4 reads then writes 8; 5 writes then reads 8;
6 requires 0 and then reads 8 (the dependency is visible); 7 requires 1 then declares a write. -/
def c05Tbl : List (Nat × Script) :=
  [(0, .write 8 0 (some (.const 1)) (.ret (.const 0))),
   (1, .read 8 0 (.ret (.var 0))),
   (2, .req 0 0 (.req 1 0 (.ret (.const 0)))),
   (3, .req 1 0 (.req 0 0 (.ret (.const 0)))),
   (4, .read 8 0 (.write 8 0 (some (.const 3)) (.ret (.const 0)))),
   (5, .write 8 0 (some (.const 3)) (.read 8 0 (.ret (.const 0)))),
   (6, .req 0 0 (.read 8 0 (.ret (.var 1)))),
   (7, .req 1 0 (.wrote 8 0 (some (.const 4)) (.ret (.const 0))))]

def c05Run (t : Nat) := sessionRequire stdSem (bodyOf c05Tbl) 100 (PieSt.newSession {}) t

/-- hidden read: aborts at `read_start` -/
example : (c05Run 2).2 = .abort .hidden ∧ (c05Run 2).1.trace.getLast? = some (.readStart 8 0) := by
  decide +kernel
/-- hidden write: aborts before the resource is modified -/
example : (c05Run 3).2 = .abort .hidden ∧ (c05Run 3).1.fs = [] ∧
    (c05Run 3).1.trace.getLast? = some (.writeStart 8 0) := by decide +kernel
/-- a task against itself, both orders -/
example : (c05Run 4).2 = .abort .hidden ∧ (c05Run 5).2 = .abort .hidden := by decide +kernel
/-- visible dependency: fine -/
example : (c05Run 6).2 = .ok 1 := by decide +kernel
/-- `written_to`: aborts with the content already modified -/
example : (c05Run 7).2 = .abort .hidden ∧ (c05Run 7).1.fs = [(8, 4)] := by decide +kernel

end PieModel
