/-
Property C02 ("nothing changed ⇒ nothing executes") for programs WITH writes, static roles.

Hypotheses: those of C01 in full (`Props/C01Full.lean`) — `StampTotal sem`, `WellFormedBody ro body`,
`∀ t, Respects sem (body t)`, `∀ t, OneChecker (body t)`, `∀ t, WriteExact sem (body t)`, a `Pie`
satisfying `PieInvW ro sem body p` (it holds after every history from the empty `Pie`) — plus
`Reflexive sem` (every checker accepts the stamp it just produced; `Sound/NoExec.lean`).

* `C02_settled_writes`: after a returning `requireAll`, the set of tasks made consistent in the
  session is `Settled`: every such task has an output, and every recorded dependency of it is
  accepted by its checker against the current resources / the stored output of a task of the set.
* `C02_idempotent_writes`: a NEW session on the resulting `Pie`, resources untouched, requiring
  the same roots with ANY fuel: (a) returns the same outputs — or runs out of fuel —, and leaves
  the store unchanged, (b) emits no `executeStart`, (c) leaves the resources unchanged.
* `C02_idempotent_writes_fuel`: ... and for all sufficiently large fuels it returns the outputs.
  ("The same fuel suffices" is false, as in the write-free case: example at the end.)
* `C02_idempotent_writes_any`, `C02_idempotent_writes_any_fuel`: the same for ANY list of tasks
  each of which was made consistent in the first session (`ConsOut s' t v`: the node of `t` is in
  `s'.consistent` and carries output `v`), e.g. a generator and its readers separately.
* `C02_idempotent_writes_history`: the same after any history from the empty `Pie`.
* `C02_same_session_writes`: ... and the same when the first session itself goes on requiring
  such tasks; `C02_consistent_memo_writes`, `C02_require_memo_writes`: within a session, making an
  already consistent task consistent again returns the stored (from-scratch) output at once, with
  no event and no change; `Session::require` of it emits just its four bracketing events.

No further hypothesis is needed: read stamps of generated resources are taken after the
generator was made consistent (static roles), write stamps after the write, at most one write
per resource and execution; `ClosedW` (`Build/IdemW/Defs.lean`) is the invariant that records
this, `Build/IdemW/{Check,Run,Make}.lean` the joint induction on fuel that maintains it.
-/
import PieModel.Build.IdemW.Session
import PieModel.Props.C02
import PieModel.Props.C01Full

namespace PieModel

variable {ro : Roles} {sem : Sem} {body : Nat → Prog}

/-! ### within a session -/

/-- `make_task_consistent` on a task that is consistent in this session returns the stored
output — the from-scratch output on the resources the session started with — at once: no event,
no change of the state.  (`C02_consistent_memo` needs no hypothesis on the programs; this is its
restatement under the session invariant of C01 in full.) -/
theorem C02_consistent_memo_writes {fs₀ : List (Nat × Int)} (f : Nat) (s : Sess) (t : Nat)
    (h : SInvW ro sem body fs₀ s) (hc : ConsT s t) :
    ∃ o ws, tdMake sem body (f + 1) s t = (s, .ok o) ∧ Den ro sem body fs₀ t (o, ws) := by
  obtain ⟨n, o, ws, hn, ht, ho, hd, _⟩ := h.consT_den hc
  exact ⟨o, ws, C02_consistent_memo f s t n o ((h.wf.store.task_iff t n).mpr ht) hn ho, hd⟩

/-- `Session::require` of a task that is consistent in this session, with fuel `≥ 2`: the result
is the stored output, and the state changes by `cur := none` and the four bracketing events. -/
theorem C02_require_memo_writes (f : Nat) (s : Sess) (t m : Nat) (o : Int)
    (hn : aget s.store.taskNode t = some m) (hm : m ∈ s.consistent)
    (ho : s.store.taskOutput m = some o) :
    sessionRequire sem body (f + 2) s t =
      ({ s with cur := none,
                trace := s.trace ++ [.buildStart, .requireStart t alwaysChecker,
                  .requireEnd t alwaysChecker (sem.ostamp alwaysChecker o) o, .buildEnd] },
        .ok o) := by
  have hmk := C02_consistent_memo (sem := sem) (body := body) f
    ({ (({ s with cur := none } : Sess).emit .buildStart).emit (.requireStart t alwaysChecker) with
        store := s.store }) t m o hn hm ho
  unfold sessionRequire
  simp only []
  unfold tdRequire
  simp only [Sess.store_emit, Store.getOrCreateTaskNode_of_some hn]
  rw [reserveRequire_none (by rfl)]
  simp only []
  rw [hmk]
  simp only []
  rw [updateRequire_none (by rfl)]
  simp [Sess.emit]

/-! ### across sessions -/

section
variable (hst : StampTotal sem) (hwf : WellFormedBody ro body)
  (hresp : ∀ t, Respects sem (body t)) (hone : ∀ t, OneChecker (body t))
  (hwe : ∀ t, WriteExact sem (body t)) (hrefl : Reflexive sem)
include hst hwf hresp hone hwe hrefl

/-- After a returning session, the tasks that are consistent in the session form a settled set
(all recorded stamps are current), which contains the roots with the returned outputs. -/
theorem C02_settled_writes (fuel : Nat) (p : PieSt) (h : PieInvW ro sem body p)
    (roots : List Nat) (s' : Sess) (os : List Int)
    (hr : requireAll sem body fuel p.newSession roots = (s', .ok os)) :
    Settled sem s'.fs s'.store s'.consistent ∧ List.Forall₂ (ConsOut s') roots os := by
  obtain ⟨_, hS, _, hall⟩ := requireAll_settled hst hwf hresp hone hwe hrefl h fuel roots hr
  exact ⟨hS, hall⟩

/-- **C02 with writes, any list of tasks made consistent in the first session.**  A new session
on the resulting `Pie`, with ANY fuel: (a) returns their stored outputs or runs out of fuel, and
does not touch the store; (b) emits no `executeStart`; (c) leaves the resources unchanged. -/
theorem C02_idempotent_writes_any (fuel : Nat) (p : PieSt) (h : PieInvW ro sem body p)
    (roots : List Nat) (s' : Sess) (os : List Int)
    (hr : requireAll sem body fuel p.newSession roots = (s', .ok os))
    (ts : List Nat) (vs : List Int) (hts : List.Forall₂ (ConsOut s') ts vs) (fuel₂ : Nat) :
    ((requireAll sem body fuel₂ s'.toPie.newSession ts).2 = .ok vs ∨
      (requireAll sem body fuel₂ s'.toPie.newSession ts).2 = .abort .outOfFuel) ∧
    (requireAll sem body fuel₂ s'.toPie.newSession ts).1.store = s'.store ∧
    NoExecEvents (requireAll sem body fuel₂ s'.toPie.newSession ts).1.trace ∧
    (requireAll sem body fuel₂ s'.toPie.newSession ts).1.fs = s'.fs := by
  obtain ⟨hw, hS, _, _⟩ := requireAll_settled hst hwf hresp hone hwe hrefl h fuel roots hr
  generalize hR : requireAll sem body fuel₂ s'.toPie.newSession ts = R
  obtain ⟨sR, rR⟩ := R
  obtain ⟨h1, h2, ⟨evs, h3, h4⟩, h5⟩ := requireAll_quiet (body := body) hw hS fuel₂ hts
    s'.toPie.newSession rfl rfl _ _ hR
  refine ⟨h5, h1, noExecEvents_of_isExec ?_, h2⟩
  show ∀ e ∈ sR.trace, _
  rw [h3]
  intro e he
  exact h4 e (by simpa [PieSt.newSession] using he)

/-- ... and with enough fuel the second session does return the stored outputs. -/
theorem C02_idempotent_writes_any_fuel (fuel : Nat) (p : PieSt) (h : PieInvW ro sem body p)
    (roots : List Nat) (s' : Sess) (os : List Int)
    (hr : requireAll sem body fuel p.newSession roots = (s', .ok os))
    (ts : List Nat) (vs : List Int) (hts : List.Forall₂ (ConsOut s') ts vs) :
    ∃ N, ∀ fuel₂, N ≤ fuel₂ →
      (requireAll sem body fuel₂ s'.toPie.newSession ts).2 = .ok vs := by
  obtain ⟨hw, hS, _, _⟩ := requireAll_settled hst hwf hresp hone hwe hrefl h fuel roots hr
  obtain ⟨N, hN⟩ := requireAll_fuel (body := body) hw hS hts
  refine ⟨N, fun f hf => ?_⟩
  generalize hR : requireAll sem body f s'.toPie.newSession ts = R
  obtain ⟨sR, rR⟩ := R
  exact hN f hf s'.toPie.newSession rfl rfl _ _ hR

/-- **C02 with writes (nothing changed ⇒ nothing executes).**  After `requireAll` returned `os`
for `roots`, a NEW session on the same `Pie` with untouched resources, requiring the same roots
with ANY fuel: (a) returns `os` — or runs out of fuel — and does not touch the store, (b) emits
no `executeStart`, (c) leaves the resources unchanged. -/
theorem C02_idempotent_writes (fuel : Nat) (p : PieSt) (h : PieInvW ro sem body p)
    (roots : List Nat) (s' : Sess) (os : List Int)
    (hr : requireAll sem body fuel p.newSession roots = (s', .ok os)) (fuel₂ : Nat) :
    ((requireAll sem body fuel₂ s'.toPie.newSession roots).2 = .ok os ∨
      (requireAll sem body fuel₂ s'.toPie.newSession roots).2 = .abort .outOfFuel) ∧
    (requireAll sem body fuel₂ s'.toPie.newSession roots).1.store = s'.store ∧
    NoExecEvents (requireAll sem body fuel₂ s'.toPie.newSession roots).1.trace ∧
    (requireAll sem body fuel₂ s'.toPie.newSession roots).1.fs = s'.fs :=
  C02_idempotent_writes_any hst hwf hresp hone hwe hrefl fuel p h roots s' os hr roots os
    (C02_settled_writes hst hwf hresp hone hwe hrefl fuel p h roots s' os hr).2 fuel₂

/-- ... and with enough fuel the second session does return the same outputs. -/
theorem C02_idempotent_writes_fuel (fuel : Nat) (p : PieSt) (h : PieInvW ro sem body p)
    (roots : List Nat) (s' : Sess) (os : List Int)
    (hr : requireAll sem body fuel p.newSession roots = (s', .ok os)) :
    ∃ N, ∀ fuel₂, N ≤ fuel₂ →
      (requireAll sem body fuel₂ s'.toPie.newSession roots).2 = .ok os :=
  C02_idempotent_writes_any_fuel hst hwf hresp hone hwe hrefl fuel p h roots s' os hr roots os
    (C02_settled_writes hst hwf hresp hone hwe hrefl fuel p h roots s' os hr).2

/-- **C02 with writes, over histories.**  After ANY history of external changes and top-down
sessions (any of them possibly aborted) from the empty `Pie`: if a session returns `os` for
`roots`, a new session right after it (nothing changed in between) requiring the same roots
returns `os` or runs out of fuel, does not touch the store, executes nothing, and leaves the
resources unchanged. -/
theorem C02_idempotent_writes_history (fuel₀ : Nat) (steps : List TStep) (fuel : Nat)
    (roots : List Nat) (s' : Sess) (os : List Int)
    (hr : requireAll sem body fuel (runStepsW sem body fuel₀ {} steps).1.newSession roots =
      (s', .ok os)) (fuel₂ : Nat) :
    ((requireAll sem body fuel₂ s'.toPie.newSession roots).2 = .ok os ∨
      (requireAll sem body fuel₂ s'.toPie.newSession roots).2 = .abort .outOfFuel) ∧
    (requireAll sem body fuel₂ s'.toPie.newSession roots).1.store = s'.store ∧
    NoExecEvents (requireAll sem body fuel₂ s'.toPie.newSession roots).1.trace ∧
    (requireAll sem body fuel₂ s'.toPie.newSession roots).1.fs = s'.fs :=
  C02_idempotent_writes hst hwf hresp hone hwe hrefl fuel _
    (runStepsW_sound hst hwf hresp hone hwe fuel₀ steps {} PieInvW.empty).1 roots s' os hr fuel₂

/-- **The same-session version.**  When the session that returned goes on requiring tasks it has
made consistent, with any fuel: the stored outputs are returned (or the fuel runs out), the store
and the resources are not touched, and the events appended to the trace contain no
`executeStart`. -/
theorem C02_same_session_writes (fuel : Nat) (p : PieSt) (h : PieInvW ro sem body p)
    (roots : List Nat) (s' : Sess) (os : List Int)
    (hr : requireAll sem body fuel p.newSession roots = (s', .ok os))
    (ts : List Nat) (vs : List Int) (hts : List.Forall₂ (ConsOut s') ts vs) (fuel₂ : Nat) :
    ((requireAll sem body fuel₂ s' ts).2 = .ok vs ∨
      (requireAll sem body fuel₂ s' ts).2 = .abort .outOfFuel) ∧
    (requireAll sem body fuel₂ s' ts).1.store = s'.store ∧
    (∃ evs, (requireAll sem body fuel₂ s' ts).1.trace = s'.trace ++ evs ∧ NoExecEvents evs) ∧
    (requireAll sem body fuel₂ s' ts).1.fs = s'.fs := by
  obtain ⟨hw, hS, _, _⟩ := requireAll_settled hst hwf hresp hone hwe hrefl h fuel roots hr
  generalize hR : requireAll sem body fuel₂ s' ts = R
  obtain ⟨sR, rR⟩ := R
  obtain ⟨h1, h2, ⟨evs, h3, h4⟩, h5⟩ := requireAll_quiet (body := body) hw hS fuel₂ hts
    s' rfl rfl _ _ hR
  exact ⟨h5, h1, ⟨evs, h3, noExecEvents_of_isExec h4⟩, h2⟩

end

/-! ### non-vacuity

The program of `Props/C01Full.lean` (task 4 reads source 1 and WRITES resource 10; task 2 requires
4 and reads 10; task 3 requires 4 if source 2 holds 1; task 1 requires 2 and 3), with the total
and reflexive checker semantics `reflSem` of `Props/C02.lean`. -/

theorem fullBody_respects_refl : ∀ t, Respects reflSem (fullBody t) := by
  intro t
  match t with
  | 0 => trivial
  | 1 =>
    exact ⟨fun o o' h => by rw [reflSem_ocheck0 h],
      fun o => ⟨fun o1 o' h => by rw [reflSem_ocheck0 h], fun _ => trivial⟩⟩
  | 2 =>
    refine ⟨fun o o' h => by rw [reflSem_ocheck0 h], fun o =>
      ⟨fun v v' s h1 h2 => by rw [reflSem_rcheck0 h1 h2], fun x => ?_⟩⟩
    dsimp only
    split <;> trivial
  | 3 =>
    refine ⟨fun v v' s h1 h2 => by rw [reflSem_rcheck0 h1 h2], fun x => ?_⟩
    dsimp only
    split
    · exact ⟨fun o o' h => by rw [reflSem_ocheck0 h], fun _ => trivial⟩
    · trivial
  | 4 =>
    refine ⟨fun v v' s h1 h2 => by rw [reflSem_rcheck0 h1 h2], fun x => ?_⟩
    dsimp only
    split
    · exact fun _ => trivial
    · exact fun _ => trivial
  | _ + 5 => trivial

theorem fullBody_writeExact_refl : ∀ t, WriteExact reflSem (fullBody t) := by
  intro t
  match t with
  | 0 => trivial
  | 1 => exact fun _ _ => trivial
  | 2 =>
    refine fun _ x => ?_
    dsimp only
    split <;> trivial
  | 3 =>
    refine fun x => ?_
    dsimp only
    split
    · exact fun _ => trivial
    · trivial
  | 4 =>
    refine fun x => ?_
    dsimp only
    split
    · exact ⟨fun x x' s h1 h2 => reflSem_rcheck0 h1 h2, fun _ => trivial⟩
    · exact ⟨fun x x' s h1 h2 => reflSem_rcheck0 h1 h2, fun _ => trivial⟩
  | _ + 5 => trivial

/-- The `Pie` with sources `1 ↦ 5, 2 ↦ 1` and an empty store. -/
def idemPie : PieSt := { fs := [(1, 5), (2, 1)] }

theorem idemPie_inv : PieInvW fullRoles reflSem fullBody idemPie := PieInvW.fresh (by decide)

/-- Two consecutive sessions: the first requires task 1 with fuel `f₁`, the second requires `ts`
with fuel `f₂`.  (result 1, number of `executeStart`s 1, result 2, number of `executeStart`s 2). -/
def idemRun (f₁ f₂ : Nat) (ts : List Nat) :
    Option (List Int) × Nat × Option (Option (List Int)) × Nat :=
  let r1 := requireAll reflSem fullBody f₁ idemPie.newSession [1]
  let r2 := requireAll reflSem fullBody f₂ r1.1.toPie.newSession ts
  (r1.2.toOption, (r1.1.trace.filter Ev.isExec).length,
   match r2.2 with | .ok o => some (some o) | .abort .outOfFuel => some none | .abort _ => none,
   (r2.1.trace.filter Ev.isExec).length)

/-- The resources after the first and after the second session. -/
def idemFs (f₁ f₂ : Nat) (ts : List Nat) : List (Nat × Int) × List (Nat × Int) :=
  let r1 := requireAll reflSem fullBody f₁ idemPie.newSession [1]
  let r2 := requireAll reflSem fullBody f₂ r1.1.toPie.newSession ts
  (r1.1.fs, r2.1.fs)

/-- First session: four executions (the generator 4 writes resource 10), output 115.  Second
session: no execution, output 115, resources unchanged. -/
example : idemRun 30 30 [1] = (some [115], 4, some (some [115]), 0) ∧
    idemFs 30 30 [1] = ([(1, 5), (2, 1), (10, 10)], [(1, 5), (2, 1), (10, 10)]) := by
  constructor <;> with_unfolding_all decide

/-- The generator 4, its reader 2 and task 3, required separately in the second session. -/
example : idemRun 30 30 [4, 2, 3] = (some [115], 4, some (some [5, 10, 105]), 0) ∧
    idemFs 30 30 [4, 2, 3] = ([(1, 5), (2, 1), (10, 10)], [(1, 5), (2, 1), (10, 10)]) := by
  constructor <;> with_unfolding_all decide

/-- **"The same fuel suffices" is false** (as in the write-free case): with fuel 11 the first
session returns 115, the second session with the same fuel executes nothing but runs out of
fuel; with fuel 12 it returns 115. -/
example : idemRun 11 11 [1] = (some [115], 4, some none, 0) ∧
    idemRun 11 12 [1] = (some [115], 4, some (some [115]), 0) := by
  constructor <;> with_unfolding_all decide

theorem idemPie_session : (requireAll reflSem fullBody 11 idemPie.newSession [1]).2 = .ok [115] :=
  Res.eq_ok_of_toOption (by with_unfolding_all decide)

/-- The theorem applied to the run, for every fuel of the second session. -/
example (f₂ : Nat) :
    NoExecEvents (requireAll reflSem fullBody f₂
      (requireAll reflSem fullBody 11 idemPie.newSession [1]).1.toPie.newSession [1]).1.trace ∧
    (requireAll reflSem fullBody f₂
      (requireAll reflSem fullBody 11 idemPie.newSession [1]).1.toPie.newSession [1]).1.fs =
      (requireAll reflSem fullBody 11 idemPie.newSession [1]).1.fs :=
  (C02_idempotent_writes reflSem_stampTotal fullBody_wf fullBody_respects_refl fullBody_oneChecker
    fullBody_writeExact_refl reflSem_reflexive 11 idemPie idemPie_inv [1] _ [115]
    (pair_of_snd idemPie_session) f₂).2.2

/-- ... and the settled set of the run contains the writer 4 and the reader 2. -/
example : List.Forall₂ (ConsOut (requireAll reflSem fullBody 11 idemPie.newSession [1]).1)
    [4, 2] [5, 10] := by
  refine .cons ⟨2, ?_, ?_, ?_⟩ (.cons ⟨1, ?_, ?_, ?_⟩ .nil) <;> with_unfolding_all decide

end PieModel
