/-
Property C01 in full: kernel-checked counterexamples to two variants of the statements of
`Props/C01Full.lean`.

1. The store hypothesis `FaithfulO` (ordered replay) of `C01_full_session` /
   `C01_full_equals_clean_build` cannot be weakened to `FaithfulW` (membership replay), even
   together with `Store.WF`, `RolesInv`, `SingleWriter`, `NoReservedDone` and unique keys: a store
   whose dependency list of a task is not in creation order of the task's CURRENT body makes the
   validation of that task visit (and re-execute) a generator which the from-scratch build does
   not demand, so a generated resource ends with a different content.  (Such a store is not
   reachable from the empty `Pie` with ONE program table — `C01_full_history` has no store
   hypothesis —; here it is produced by building with one table and continuing with another.)

2. Minimality (`C02_minimal`) does not hold "for all checkers": without `WriteExact` the
   session of `badHistory` (end of `Props/C01Full.lean`) executes task 5, which is not demanded.
-/
import PieModel.Props.C01Full
import PieModel.Props.C06Inv
import PieModel.Build.Stack.Defs

namespace PieModel

open DecEqAux

/-! ### 1. `FaithfulW` is not enough -/

def cexRoles : Roles := { rank := fun t => t, gen := fun r => if r = 10 then some 3 else none }

/-- Task 1 requires 3 (the generator of resource 10, a copy of source 1), then 2. -/
def cexBody₁ : Nat → Prog
  | 1 => .req 3 0 (fun _ => .req 2 0 (fun _ => .ret 777))
  | 2 => .ret 0
  | 3 => .read 1 0 (fun x => match x with
      | .ok (some v) => .write 10 0 (some v) (fun _ => .ret 5)
      | _ => .write 10 0 none (fun _ => .ret 5))
  | _ => .ret 7

/-- Task 1 requires 2 first, and 3 only if 2 returned 1 (it returns 0). -/
def cexBody₂ : Nat → Prog
  | 1 => .req 2 0 (fun c => if c = 1 then .req 3 0 (fun _ => .ret 777) else .ret 777)
  | 2 => .ret 0
  | 3 => .read 1 0 (fun x => match x with
      | .ok (some v) => .write 10 0 (some v) (fun _ => .ret 5)
      | _ => .write 10 0 none (fun _ => .ret 5))
  | _ => .ret 7

theorem cexBody_eq : ∀ t, t ≠ 1 → cexBody₂ t = cexBody₁ t := by
  intro t ht
  match t with
  | 0 => rfl
  | 1 => exact absurd rfl ht
  | 2 => rfl
  | 3 => rfl
  | _ + 4 => rfl

theorem cexBody₁_wf : WellFormedBody cexRoles cexBody₁ := by
  intro t
  match t with
  | 0 | 2 => trivial
  | 1 => simp [StaticRoles, StaticRolesFrom, cexBody₁, cexRoles]
  | 3 =>
    refine ⟨by simp [cexRoles], by simp [cexRoles], fun x => ?_⟩
    dsimp only
    split
    · exact ⟨by simp [cexRoles], by simp, fun _ => trivial⟩
    · exact ⟨by simp [cexRoles], by simp, fun _ => trivial⟩
  | _ + 4 => trivial

theorem cexBody₂_wf : WellFormedBody cexRoles cexBody₂ := by
  intro t
  match t with
  | 0 | 2 => trivial
  | 1 =>
    refine ⟨by simp [cexRoles], fun o => ?_⟩
    dsimp only
    split
    · exact ⟨by simp [cexRoles], fun _ => trivial⟩
    · trivial
  | 3 =>
    refine ⟨by simp [cexRoles], by simp [cexRoles], fun x => ?_⟩
    dsimp only
    split
    · exact ⟨by simp [cexRoles], by simp, fun _ => trivial⟩
    · exact ⟨by simp [cexRoles], by simp, fun _ => trivial⟩
  | _ + 4 => trivial

theorem cexBody₁_respects : ∀ t, Respects totalSem (cexBody₁ t) := by
  intro t
  match t with
  | 0 | 2 => trivial
  | 1 => exact ⟨fun _ _ _ => rfl, fun _ => ⟨fun _ _ _ => rfl, fun _ => trivial⟩⟩
  | 3 =>
    refine ⟨fun v v' s h1 h2 => by rw [totalSem_rcheck0 h1 h2], fun x => ?_⟩
    dsimp only
    split
    · exact fun _ => trivial
    · exact fun _ => trivial
  | _ + 4 => trivial

theorem cexBody₂_respects : ∀ t, Respects totalSem (cexBody₂ t) := by
  intro t
  match t with
  | 0 | 2 => trivial
  | 1 =>
    refine ⟨fun o o' h => by rw [totalSem_ocheck0 h], fun o => ?_⟩
    dsimp only
    split
    · exact ⟨fun _ _ _ => rfl, fun _ => trivial⟩
    · trivial
  | 3 =>
    refine ⟨fun v v' s h1 h2 => by rw [totalSem_rcheck0 h1 h2], fun x => ?_⟩
    dsimp only
    split
    · exact fun _ => trivial
    · exact fun _ => trivial
  | _ + 4 => trivial

theorem cexBody₁_oneChecker : ∀ t, OneChecker (cexBody₁ t) := by
  intro t
  match t with
  | 0 | 2 => trivial
  | 1 => simp [OneChecker, OneCk, cexBody₁]
  | 3 =>
    refine ⟨fun c' h => (nomatch h), fun x => ?_⟩
    dsimp only
    split
    · exact ⟨by simp, fun _ => trivial⟩
    · exact ⟨by simp, fun _ => trivial⟩
  | _ + 4 => trivial

theorem cexBody₂_oneChecker : ∀ t, OneChecker (cexBody₂ t) := by
  intro t
  match t with
  | 0 | 2 => trivial
  | 1 =>
    refine ⟨fun c' h => (nomatch h), fun o => ?_⟩
    dsimp only
    split
    · exact ⟨by simp, fun _ => trivial⟩
    · trivial
  | 3 =>
    refine ⟨fun c' h => (nomatch h), fun x => ?_⟩
    dsimp only
    split
    · exact ⟨by simp, fun _ => trivial⟩
    · exact ⟨by simp, fun _ => trivial⟩
  | _ + 4 => trivial

theorem cexBody₁_writeExact : ∀ t, WriteExact totalSem (cexBody₁ t) := by
  intro t
  match t with
  | 0 | 2 => trivial
  | 1 => exact fun _ _ => trivial
  | 3 =>
    refine fun x => ?_
    dsimp only
    split
    · exact ⟨fun x x' s h1 h2 => totalSem_rcheck0 h1 h2, fun _ => trivial⟩
    · exact ⟨fun x x' s h1 h2 => totalSem_rcheck0 h1 h2, fun _ => trivial⟩
  | _ + 4 => trivial

theorem cexBody₂_writeExact : ∀ t, WriteExact totalSem (cexBody₂ t) := by
  intro t
  match t with
  | 0 | 2 => trivial
  | 1 =>
    refine fun o => ?_
    dsimp only
    split
    · exact fun _ => trivial
    · trivial
  | 3 =>
    refine fun x => ?_
    dsimp only
    split
    · exact ⟨fun x x' s h1 h2 => totalSem_rcheck0 h1 h2, fun _ => trivial⟩
    · exact ⟨fun x x' s h1 h2 => totalSem_rcheck0 h1 h2, fun _ => trivial⟩
  | _ + 4 => trivial

/-- Source 1 := 5; build task 1 with the FIRST table; source 1 := 6. -/
def cexPie : PieSt :=
  ((requireAll totalSem cexBody₁ 30 ((({} : PieSt).setContent 1 (some 5)).newSession) [1]).1.toPie).setContent
    1 (some 6)

theorem cexPie_inv₁ : PieInvW cexRoles totalSem cexBody₁ cexPie :=
  ((PieInvW.empty.setContent 1 (some 5)).session totalSem_stampTotal cexBody₁_wf cexBody₁_respects
    cexBody₁_oneChecker cexBody₁_writeExact 30 [1]).setContent 1 (some 6)

theorem cexPie_store : cexPie.store =
    (requireAll totalSem cexBody₁ 30 ((({} : PieSt).setContent 1 (some 5)).newSession) [1]).1.store := rfl

/-- The store is faithful (membership version) for the SECOND table, too: the recorded
dependencies of task 1 replay its new body — but not in their order. -/
theorem cexPie_faithfulW₂ : FaithfulW totalSem cexBody₂ cexPie.store := by
  intro n t v ht hv
  by_cases h1 : t = 1
  · subst h1
    have hn0 : cexPie.store.taskOf 0 = some 1 := by with_unfolding_all decide
    have : n = 0 := cexPie_inv₁.wf.node_inj ht hn0
    subst this
    have hd : cexPie.store.depsFrom 0 =
        [.require 3 0 (.int 5), .require 2 0 (.int 0)] := by with_unfolding_all decide
    have ho : cexPie.store.taskOutput 0 = some 777 := by with_unfolding_all decide
    rw [ho] at hv; cases hv
    rw [hd]
    exact ⟨⟨.int 0, by simp, 0, rfl, rfl⟩, by simp⟩
  · rw [cexBody_eq t h1]
    exact cexPie_inv₁.faithful.faithfulW n t v ht hv

theorem cexPie_singleWriter : cexPie.store.SingleWriter := by
  rw [cexPie_store]
  exact (C06_single_writer_preserved totalSem cexBody₁ 30
    ((({} : PieSt).setContent 1 (some 5)).newSession)
    (C19_newSession_wf (({} : PieSt).setContent 1 (some 5)) Store.WF.empty)
    Store.SingleWriter.empty).2.2.2.2.2.2.1 [1]

theorem cexPie_noReservedDone : cexPie.store.NoReservedDone := by
  intro n hn
  cases ho : cexPie.store.taskOutput n with
  | none => exact absurd ho hn
  | some v =>
    obtain ⟨t, ht⟩ := Store.taskOf_of_output ho
    exact (cexPie_faithfulW₂ n t v ht ho).2

/-- The session with the second table on `cexPie` re-executes the generator 3 (its source
changed) although task 1 does not require it any more: resource 10 becomes 6.  The from-scratch
build of the same root on the same resources leaves 5 in resource 10. -/
theorem cexPie_runs :
    (requireAll totalSem cexBody₂ 30 cexPie.newSession [1]).2 = .ok [777] ∧
    (cleanBuild totalSem cexBody₂ 30 cexPie.fs [1]).2 = .ok [777] ∧
    aget (requireAll totalSem cexBody₂ 30 cexPie.newSession [1]).1.fs 10 = some 6 ∧
    aget (cleanBuild totalSem cexBody₂ 30 cexPie.fs [1]).1.fs 10 = some 5 := by
  refine ⟨?_, ?_, ?_, ?_⟩ <;> with_unfolding_all decide

/-- **`C01_full_equals_clean_build` with `FaithfulW` instead of `FaithfulO` is false**, even with
all the other store invariants. -/
theorem C01_full_faithfulW_insufficient :
    ¬ (∀ (ro : Roles) (sem : Sem) (body : Nat → Prog), StampTotal sem → WellFormedBody ro body →
      (∀ t, Respects sem (body t)) → (∀ t, OneChecker (body t)) → (∀ t, WriteExact sem (body t)) →
      ∀ (fuel fuel' : Nat) (p : PieSt), p.store.WF → FaithfulW sem body p.store →
      RolesInv ro p.store → p.store.SingleWriter → p.store.NoReservedDone → (akeys p.fs).Nodup →
      ∀ (roots : List Nat) (s' sc : Sess) (os os' : List Int),
      requireAll sem body fuel p.newSession roots = (s', .ok os) →
      cleanBuild sem body fuel' p.fs roots = (sc, .ok os') → ∀ r, aget s'.fs r = aget sc.fs r) := by
  intro hall
  obtain ⟨h1, h2, h3, h4⟩ := cexPie_runs
  have := hall cexRoles totalSem cexBody₂ totalSem_stampTotal cexBody₂_wf cexBody₂_respects
    cexBody₂_oneChecker cexBody₂_writeExact 30 30 cexPie cexPie_inv₁.wf cexPie_faithfulW₂
    cexPie_inv₁.roles cexPie_singleWriter cexPie_noReservedDone cexPie_inv₁.nodup [1] _ _ _ _
    (pair_of_snd h1) (pair_of_snd h2) 10
  rw [h3, h4] at this
  exact absurd this (by decide)

/-! ### 2. minimality fails without `WriteExact` -/

/-- The resource state at the start of the second session of `badHistory`. -/
def badFs : List (Nat × Int) := [(1, 5), (10, 99)]

theorem totalSem_rstamp_ne_error (c : Nat) (v : Option Int) (e : Int) :
    totalSem.rstamp c v ≠ .error e := by
  intro h; simp [totalSem] at h

/-- From scratch, task 4 returns 5 and writes 10 into resource 10. -/
theorem bad_den4 {res : Int × Writes} (h : Den badRoles totalSem badBody badFs 4 res) :
    res = (5, [(10, some 10)]) := by
  unfold Den at h
  cases h with
  | read _ h' =>
    have hv : view badRoles badFs [] 1 = some 5 := by decide
    rw [hv] at h'
    cases h' with
    | write _ h'' => cases h''; rfl
    | writeErr he _ => exact absurd he (totalSem_rstamp_ne_error _ _ _)
  | readErr he _ => exact absurd he (totalSem_rstamp_ne_error _ _ _)

theorem bad_calls4 {u : Nat} (h : Calls badRoles totalSem badBody badFs 4 u) : False := by
  unfold Calls at h
  cases h with
  | read _ h' =>
    have hv : view badRoles badFs [] 1 = some 5 := by decide
    rw [hv] at h'
    cases h' with
    | write _ h'' => cases h''
    | writeErr he _ => exact absurd he (totalSem_rstamp_ne_error _ _ _)
  | readErr he _ => exact absurd he (totalSem_rstamp_ne_error _ _ _)

theorem bad_calls2 {u : Nat} (h : Calls badRoles totalSem badBody badFs 2 u) : u = 4 := by
  unfold Calls at h
  cases h with
  | here => rfl
  | req hd hc =>
    have := bad_den4 hd; cases this
    cases hc with
    | read _ h' =>
      have hv : view badRoles badFs [(4, [(10, some 10)])] 10 = some 10 := by decide
      rw [hv] at h'
      cases h'
    | readErr he _ => exact absurd he (totalSem_rstamp_ne_error _ _ _)

/-- The from-scratch build of task 2 on `badFs` demands tasks 2 and 4 only. -/
theorem bad_demanded {t : Nat} (h : Demanded badRoles totalSem badBody badFs [2] t) :
    t = 2 ∨ t = 4 := by
  induction h with
  | root hm => left; simpa using hm
  | step _ hc ih =>
    rcases ih with rfl | rfl
    · right; exact bad_calls2 hc
    · exact (bad_calls4 hc).elim

/-- **`C02_minimal_history` without `WriteExact` is false**: the second session of `badHistory`
executes task 5, which the from-scratch build on the same resources does not demand. -/
theorem C02_minimal_needs_writeExact :
    ¬ (∀ (ro : Roles) (sem : Sem) (body : Nat → Prog), StampTotal sem → WellFormedBody ro body →
      (∀ t, Respects sem (body t)) → (∀ t, OneChecker (body t)) →
      ∀ (fuel : Nat) (steps : List TStep) (e : SessLog), e ∈ (runStepsW sem body fuel {} steps).2 →
      ∀ t, Ev.executeStart t ∈ e.trace → Demanded ro sem body e.before e.roots t) := by
  intro hall
  have hlog : (runStepsW totalSem badBody 30 {} badHistory).2.map
      (fun e => (e.before, e.roots, decide (Ev.executeStart 5 ∈ e.trace))) =
      [([(1, 5)], [2], false), (badFs, [2], true)] := by
    with_unfolding_all decide
  have hmem : ((badFs, [2], true) : List (Nat × Int) × List Nat × Bool) ∈
      (runStepsW totalSem badBody 30 {} badHistory).2.map
        (fun e => (e.before, e.roots, decide (Ev.executeStart 5 ∈ e.trace))) := by
    rw [hlog]; simp
  obtain ⟨e, he, hf⟩ := List.mem_map.mp hmem
  simp only [Prod.mk.injEq, decide_eq_true_eq] at hf
  obtain ⟨hb, hr, hx⟩ := hf
  have := hall badRoles totalSem badBody totalSem_stampTotal badBody_wf badBody_respects
    badBody_oneChecker 30 badHistory e he 5 hx
  rw [hb, hr] at this
  rcases bad_demanded this with h | h <;> cases h

end PieModel
