/-
A VERIFIED Boolean checker of the TRANSITIVE static-role hypotheses on the scripted programs of the
correspondence harness, and C20 / C05 for the driver's runs of tables with relays.

`Props/C20Trans.lean` proves C20 / C05 for static roles with transitive requires of the generator:
`CRoles` (rank, generator, `cov`), `WellFormedCov cr body`, `PrefixCov cr body`.  The harness
generates "relay" programs: a relay's script is `req <inner> 0 ret v 0` with `<inner>` the generator
or another relay; readers are `req <relay> c … read <g> c' …`; relay ids are larger than all other
ids, so `rank t = t` (`rolesOf`) does not work any more.  This file turns "the generated tables
satisfy the hypotheses" into ONE Boolean test (definitions: `Build/ScriptCov/Defs.lean`, plain
structural recursion, linkable by the compiled driver) with a soundness proof, and restates the
theorems for the driver's runs with no hypothesis but the test.

1. `covRolesOf tbl : CRoles` — `gen` as in `rolesOf` (the first task whose script writes `r`);
   `cov t` := the chain of FIRST requires starting at `t` (if the script of `t` starts with
   `req u ..`: `u`, then `cov u`); `rank t := tbl.length - height t`, `height` the length of the
   longest chain of requires from `t`, computed by `tbl.length` relaxation passes.
   `covRolesOf tbl` is the conversion of the import-free record `ScriptCov.covRolesRecOf tbl`.
2. `Table.covB_sound`: `tbl.covB = true → WellFormedCov (covRolesOf tbl) (bodyOf tbl) ∧
   PrefixCov (covRolesOf tbl) (bodyOf tbl)`; the second part holds of every table
   (`Table.prefixCov_always`).
3. `C20_trans_scripts_first_abort`, `C20_trans_scripts_prefix_no_abort`,
   `C05_trans_scripts_noHidden` (and `C20_trans_scripts_history_inv`): the theorems of
   `Props/C20Trans.lean` for `bodyOf tbl` under the driver's `stdSem`, every history, every fuel;
   the `_anySem` versions for every checker semantics.
4. Non-vacuity: `scovTbl` (a direct reader, a reader behind a relay, two readers sharing a relay, a
   reader behind a chained relay; exactly the harness shapes), `scovPanicTbl` (a relay that may
   panic AFTER its require), the test by `decide`, the corollaries instantiated on mixed histories
   with task panics; `scovLateTbl` (the reader requires the relay AFTER reading) fails the test and
   the driver's run aborts with `hidden`; `scovEarlyPanicTbl` (the counterexample `ctxBody` of
   `Props/C20Trans.lean` as a table: the relay may panic BEFORE its require) fails the test, and its
   run shows the spurious `hidden`.

Proofs: `PieModel/Build/ScriptCov/Sound.lean`.
-/
import PieModel.Build.ScriptCov.Sound
import PieModel.Props.C20Trans
import PieModel.Props.ScriptWF

namespace PieModel

open TransRoles

/-! ### 1. the roles-with-covers of a table -/

/-- `covRolesOf tbl` is the import-free record `ScriptCov.covRolesRecOf tbl` the compiled driver
computes, field by field; the two record types are in bijection. -/
theorem covRolesOf_eq (tbl : Table) :
    (covRolesOf tbl).rank = (ScriptCov.covRolesRecOf tbl).rank ∧
    (covRolesOf tbl).gen = (ScriptCov.covRolesRecOf tbl).gen ∧
    (covRolesOf tbl).cov = (ScriptCov.covRolesRecOf tbl).cov ∧
    (∀ cr : CRoles, (ScriptCov.recOfCRoles cr).toCRoles = cr) ∧
    (∀ r : ScriptCov.CovRolesRec, ScriptCov.recOfCRoles r.toCRoles = r) :=
  ⟨rfl, rfl, rfl, ScriptCov.toCRoles_recOfCRoles, ScriptCov.recOfCRoles_toCRoles⟩

/-- `gen` is the one of `rolesOf`: the first task of the table whose script writes the resource. -/
theorem covRolesOf_gen_eq (tbl : Table) : (covRolesOf tbl).gen = (rolesOf tbl).gen := rfl

/-- `cov t` is empty unless the script of `t` starts with a require `req u ..`; then it is `u`
followed by (a prefix of) `cov u`. -/
theorem covRolesOf_cov_spec (tbl : Table) (t w : Nat) (hw : w ∈ (covRolesOf tbl).cov t) :
    ∃ u c k, (t, Script.req u c k) ∈ tbl ∧ bodyOf tbl t = compile [] (.req u c k) ∧
      (w = u ∨ w ∈ (covRolesOf tbl).cov u) := by
  rw [ScriptCov.covRolesOf_cov] at hw
  obtain ⟨u, hu, hc⟩ := ScriptCov.reqChain_cases tbl hw
  obtain ⟨c, k, hm, hb⟩ := ScriptCov.tblHeadReq_spec hu
  exact ⟨u, c, k, hm, hb, by rw [ScriptCov.covRolesOf_cov]; exact hc⟩

/-! ### 2. the Boolean test is sound -/

/-- The script test: `covFromB` implies `StaticCovFrom` of the compiled script, for EVERY
environment. -/
theorem Script.covTest_sound (r : ScriptCov.CovRolesRec) (t : Nat) (s : Script) (rq wr : List Nat)
    (h : ScriptCov.covFromB r t rq wr s = true) (env : Env) :
    StaticCovFrom r.toCRoles t ⟨rq, wr⟩ (compile env s) :=
  ScriptCov.covFromB_sound r t s rq wr h env

/-- Every table has the relay-prefix shape w.r.t. its own roles-with-covers. -/
theorem Table.prefixCov_always (tbl : Table) : PrefixCov (covRolesOf tbl) (bodyOf tbl) :=
  ScriptCov.table_prefixCov tbl

/-- **`Table.covB` is sound**: the hypotheses of `Props/C20Trans.lean` on the program table,
w.r.t. the roles-with-covers `covRolesOf tbl`. -/
theorem Table.covB_sound {tbl : Table} (h : tbl.covB = true) :
    WellFormedCov (covRolesOf tbl) (bodyOf tbl) ∧ PrefixCov (covRolesOf tbl) (bodyOf tbl) :=
  ⟨ScriptCov.table_wellFormedCov h, ScriptCov.table_prefixCov tbl⟩

/-! ### 3. the theorems about the driver's runs

For every checker semantics first (`_anySem`), then for the driver's `stdSem`. -/

/-- After every history the store satisfies the invariant `CovInv`, every `sem`. -/
theorem C20_trans_scripts_history_inv_anySem (sem : Sem) (tbl : Table) (h : tbl.covB = true)
    (fuel : Nat) (steps : List HStep) :
    CovInv (covRolesOf tbl) (runHistory sem (bodyOf tbl) fuel steps).store :=
  C20_trans_history_inv sem (Table.covB_sound h).1 fuel steps

theorem C20_trans_scripts_first_abort_anySem (sem : Sem) (tbl : Table) (h : tbl.covB = true)
    (fuel : Nat) (steps : List HStep) (a : Abort) (rest : List Abort)
    (ha : historyAborts sem (bodyOf tbl) fuel {} steps = a :: rest) :
    a ≠ .cyclic ∧ a ≠ .hidden ∧ a ≠ .overlap :=
  C20_trans_no_abort_partial sem (Table.covB_sound h).1 fuel steps a rest ha

theorem C20_trans_scripts_prefix_no_abort_anySem (sem : Sem) (tbl : Table) (h : tbl.covB = true)
    (fuel : Nat) (steps : List HStep) (pre : List Abort) (a : Abort) (post : List Abort)
    (ha : historyAborts sem (bodyOf tbl) fuel {} steps = pre ++ a :: post)
    (hp : ∀ b ∈ pre, b = .taskPanic) : a ≠ .cyclic ∧ a ≠ .hidden ∧ a ≠ .overlap :=
  C20_trans_prefix_no_abort sem (Table.covB_sound h).1 (Table.covB_sound h).2 fuel steps pre a post
    ha hp

theorem C05_trans_scripts_noHidden_anySem (sem : Sem) (tbl : Table) (h : tbl.covB = true)
    (fuel : Nat) (steps : List HStep)
    (hp : ∀ b ∈ historyAborts sem (bodyOf tbl) fuel {} steps, b = .taskPanic) :
    AllSat (covRolesOf tbl) (runHistory sem (bodyOf tbl) fuel steps).store ∧
      (runHistory sem (bodyOf tbl) fuel steps).store.NoHidden :=
  C05_trans_prefix_noHidden_history sem (Table.covB_sound h).1 (Table.covB_sound h).2 fuel steps hp

/-- **The invariant along the driver's runs.**  `Table.covB` alone: after EVERY mixed history of the
driver (aborted sessions and builds included), every fuel, the store satisfies `CovInv`: edges go
upward in rank, only the generator has write edges, the reader of a generated resource has an edge
to a task covering the generator, a task with output has edges covering its `cov`. -/
theorem C20_trans_scripts_history_inv (tbl : Table) (h : tbl.covB = true) (fuel : Nat)
    (steps : List HStep) :
    CovInv (covRolesOf tbl) (runHistory stdSem (bodyOf tbl) fuel steps).store :=
  C20_trans_scripts_history_inv_anySem stdSem tbl h fuel steps

/-- **C20 for scripted tables with relays: the first abort.**  `Table.covB` alone: along every
mixed history of the driver — external changes, top-down sessions, bottom-up builds followed by
requires — every fuel, the FIRST abort is not a cyclic-dependency, hidden-dependency or
overlapping-write abort. -/
theorem C20_trans_scripts_first_abort (tbl : Table) (h : tbl.covB = true) (fuel : Nat)
    (steps : List HStep) (a : Abort) (rest : List Abort)
    (ha : historyAborts stdSem (bodyOf tbl) fuel {} steps = a :: rest) :
    a ≠ .cyclic ∧ a ≠ .hidden ∧ a ≠ .overlap :=
  C20_trans_scripts_first_abort_anySem stdSem tbl h fuel steps a rest ha

/-- **C20 for scripted tables with relays: task panics are harmless.**  `Table.covB` alone: along
every mixed history of the driver, every fuel, the first abort that is not a task panic is not a
cyclic-dependency, hidden-dependency or overlapping-write abort — whatever many sessions / builds
were aborted by task panics before. -/
theorem C20_trans_scripts_prefix_no_abort (tbl : Table) (h : tbl.covB = true) (fuel : Nat)
    (steps : List HStep) (pre : List Abort) (a : Abort) (post : List Abort)
    (ha : historyAborts stdSem (bodyOf tbl) fuel {} steps = pre ++ a :: post)
    (hp : ∀ b ∈ pre, b = .taskPanic) : a ≠ .cyclic ∧ a ≠ .hidden ∧ a ≠ .overlap :=
  C20_trans_scripts_prefix_no_abort_anySem stdSem tbl h fuel steps pre a post ha hp

/-- **C05 (global clause) for scripted tables with relays.**  `Table.covB` alone: after every mixed
history of the driver whose aborts (if any) are task panics, every fuel, every task node of the
store is saturated and the store has no hidden dependency: every task with a recorded read of a
resource reaches every task with a recorded write of it. -/
theorem C05_trans_scripts_noHidden (tbl : Table) (h : tbl.covB = true) (fuel : Nat)
    (steps : List HStep)
    (hp : ∀ b ∈ historyAborts stdSem (bodyOf tbl) fuel {} steps, b = .taskPanic) :
    AllSat (covRolesOf tbl) (runHistory stdSem (bodyOf tbl) fuel steps).store ∧
      (runHistory stdSem (bodyOf tbl) fuel steps).store.NoHidden :=
  C05_trans_scripts_noHidden_anySem stdSem tbl h fuel steps hp

/-- In particular after every abort-free history. -/
theorem C05_trans_scripts_noHidden_abort_free (tbl : Table) (h : tbl.covB = true) (fuel : Nat)
    (steps : List HStep) (hna : historyAborts stdSem (bodyOf tbl) fuel {} steps = []) :
    (runHistory stdSem (bodyOf tbl) fuel steps).store.NoHidden :=
  (C05_trans_scripts_noHidden tbl h fuel steps (by rw [hna]; exact fun _ hb => nomatch hb)).2

/-! ### 4. non-vacuity

The harness shapes.  Task 5 GENERATES resource 10 from source 1 (and panics if the source holds 7).
Tasks 6, 7 are relays (larger ids than all other tasks): `6 = req 5 0 ret v0`, `7 = req 6 0 ret v0`
(chained).  Readers of 10: task 0 requires the generator directly; task 1 requires the chained
relay 7; tasks 2 and 3 share the relay 6. -/

def scovTbl : Table :=
  [(0, .req 5 0 (.read 10 0 (.ret (.var 1)))),
   (1, .req 7 0 (.read 10 0 (.ret (.add (.var 0) (.var 1))))),
   (2, .req 6 0 (.read 10 0 (.ret (.add (.var 1) (.const 1))))),
   (3, .req 6 0 (.read 10 0 (.ret (.add (.var 1) (.const 2))))),
   (5, .read 1 0 (.ite (.eq (.var 0) (.const 7)) .panic (.ite (.isNone 0)
          (.write 10 0 none (.ret (.const 0)))
          (.write 10 0 (some (.mul (.var 0) (.const 2))) (.ret (.var 0)))))),
   (6, .req 5 0 (.ret (.var 0))),
   (7, .req 6 0 (.ret (.var 0)))]

/-- The test, evaluated by the kernel. -/
theorem scovTbl_covB : scovTbl.covB = true := by decide

/-- The direct test rejects the table: with `rank t = t` the relays 6, 7 require downward. -/
example : scovTbl.staticRolesB = false := by decide

/-- The derived roles: 5 generates 10; the covers are the chains of first requires; the ranks
decrease with the height (task 4 is not in the table). -/
example : (covRolesOf scovTbl).gen 10 = some 5 ∧ (covRolesOf scovTbl).gen 1 = none ∧
    (List.range 8).map (covRolesOf scovTbl).cov =
      [[5], [7, 6, 5], [6, 5], [6, 5], [], [], [5], [6, 5]] ∧
    (List.range 8).map (covRolesOf scovTbl).rank = [6, 4, 5, 5, 7, 7, 6, 5] := by decide

/-- `Table.covB_sound` applied. -/
example : WellFormedCov (covRolesOf scovTbl) (bodyOf scovTbl) ∧
    PrefixCov (covRolesOf scovTbl) (bodyOf scovTbl) := Table.covB_sound scovTbl_covB

/-- A mixed history: sessions, external changes of the generator's source, bottom-up builds with and
without requires; three times the generator panics (source 1 holds 7) while relays and readers are
being checked / re-executed; then the generator is executed directly and everything is required
again. -/
def scovHist : List HStep :=
  [.change 1 (some 5), .session [1, 2, 0], .change 1 (some 7), .session [2],
   .bottomUp [1] [1, 0, 3], .change 1 (some 9), .bottomUp [1] [], .session [0, 1, 2, 3],
   .change 1 (some 7), .bottomUp [1] [3], .change 1 (some 4), .session [5], .session [3, 2, 1, 0]]

theorem scovHist_aborts : historyAborts stdSem (bodyOf scovTbl) 60 {} scovHist =
    [.taskPanic, .taskPanic, .taskPanic] := by with_unfolding_all decide

/-- `C05_trans_scripts_noHidden` applied: no hidden dependency after the history ... -/
theorem scovHist_noHidden : (runHistory stdSem (bodyOf scovTbl) 60 scovHist).store.NoHidden :=
  (C05_trans_scripts_noHidden scovTbl scovTbl_covB 60 scovHist
    (by rw [scovHist_aborts]; simp)).2

/-- ... not vacuously: resource 10's node has a recorded writer and four recorded readers. -/
example : ∃ dst, (runHistory stdSem (bodyOf scovTbl) 60 scovHist).store.writersTo dst ≠ [] ∧
    ((runHistory stdSem (bodyOf scovTbl) 60 scovHist).store.tasksReadingFrom dst).length = 4 := by
  refine ⟨((runHistory stdSem (bodyOf scovTbl) 60 scovHist).store.getOrCreateResNode 10).2, ?_⟩
  with_unfolding_all decide

/-- `C20_trans_scripts_prefix_no_abort` applied: whatever step follows (any history extending
`scovHist`, any fuel would do as well), the first abort that is not a task panic is no diagnosed
violation. -/
example (more : List HStep) (pre : List Abort) (a : Abort) (post : List Abort)
    (ha : historyAborts stdSem (bodyOf scovTbl) 60 {} (scovHist ++ more) = pre ++ a :: post)
    (hp : ∀ b ∈ pre, b = .taskPanic) : a ≠ .cyclic ∧ a ≠ .hidden ∧ a ≠ .overlap :=
  C20_trans_scripts_prefix_no_abort scovTbl scovTbl_covB 60 _ pre a post ha hp

/-- `C20_trans_scripts_first_abort` applied (here with too little fuel: the first abort is
`outOfFuel`). -/
example : historyAborts stdSem (bodyOf scovTbl) 4 {} scovHist ≠ [] ∧
    ∀ a rest, historyAborts stdSem (bodyOf scovTbl) 4 {} scovHist = a :: rest →
      a ≠ .cyclic ∧ a ≠ .hidden ∧ a ≠ .overlap :=
  ⟨by with_unfolding_all decide,
    fun a rest ha => C20_trans_scripts_first_abort scovTbl scovTbl_covB 4 scovHist a rest ha⟩

/-! #### a relay that may panic AFTER its require

Beyond the harness shape, still accepted: relay 6 requires the generator 5 first, then reads source
2 and panics if it holds 1.  `cov 6 = [5]` only looks at the first operation. -/

def scovPanicTbl : Table :=
  [(1, .req 7 0 (.read 10 0 (.ret (.add (.var 0) (.var 1))))),
   (2, .req 6 0 (.read 10 0 (.ret (.add (.var 1) (.const 1))))),
   (5, .read 1 0 (.write 10 0 (some (.mul (.var 0) (.const 2))) (.ret (.var 0)))),
   (6, .req 5 0 (.read 2 0 (.ite (.eq (.var 1) (.const 1)) .panic (.ret (.var 0))))),
   (7, .req 6 0 (.ret (.var 0)))]

theorem scovPanicTbl_covB : scovPanicTbl.covB = true := by decide

/-- The relay panics in a session of its own and once more in a bottom-up build; in between the
generator is executed directly and overwrites resource 10 while the readers 1 and 2 keep their read
edges: no spurious `hidden`, because the panicking relay had re-required the generator first. -/
def scovPanicHist : List HStep :=
  [.change 1 (some 5), .change 2 (some 0), .session [1, 2], .change 2 (some 1), .session [6],
   .change 1 (some 6), .session [5], .bottomUp [2] [1], .change 2 (some 0), .bottomUp [2] [1, 2]]

theorem scovPanicHist_aborts : historyAborts stdSem (bodyOf scovPanicTbl) 60 {} scovPanicHist =
    [.taskPanic, .taskPanic] := by with_unfolding_all decide

example : AllSat (covRolesOf scovPanicTbl) (runHistory stdSem (bodyOf scovPanicTbl) 60 scovPanicHist).store ∧
    (runHistory stdSem (bodyOf scovPanicTbl) 60 scovPanicHist).store.NoHidden :=
  C05_trans_scripts_noHidden scovPanicTbl scovPanicTbl_covB 60 scovPanicHist
    (by rw [scovPanicHist_aborts]; simp)

/-! #### the test is needed -/

/-- The reader requires the relay AFTER reading the generated resource: rejected; the driver's
second session aborts with a hidden dependency. -/
def scovLateTbl : Table :=
  [(1, .read 10 0 (.req 6 0 (.ret (.var 0)))),
   (5, .write 10 0 (some (.const 1)) (.ret (.const 0))),
   (6, .req 5 0 (.ret (.var 0)))]

example : scovLateTbl.covB = false := by decide

theorem scovLateTbl_hidden :
    historyAborts stdSem (bodyOf scovLateTbl) 20 {} [.session [1], .session [1]] = [.hidden] := by
  with_unfolding_all decide

/-- The counterexample `ctxBody` of `Props/C20Trans.lean` as a table: the relay 2 reads a source and
may PANIC before it requires the generator 3.  `cov 2 = []` (the first operation of 2 is no
require), so the reader 1 fails the test — rightly: after the relay panicked, the direct execution
of the generator aborts with a spurious `hidden`. -/
def scovEarlyPanicTbl : Table :=
  [(1, .req 2 0 (.read 10 0 (.ret (.var 1)))),
   (2, .read 0 0 (.ite (.eq (.var 0) (.const 1)) .panic (.req 3 0 (.ret (.var 1))))),
   (3, .read 1 0 (.write 10 0 (some (.mul (.var 0) (.const 2))) (.ret (.const 1))))]

example : scovEarlyPanicTbl.covB = false := by decide

theorem scovEarlyPanicTbl_hidden :
    historyAborts stdSem (bodyOf scovEarlyPanicTbl) 20 {}
      [.change 1 (some 5), .change 0 (some 0), .session [1], .change 0 (some 1), .session [2],
       .change 1 (some 6), .session [3]] = [.taskPanic, .hidden] := by
  with_unfolding_all decide

/-- A cyclic chain of relays is rejected (no rank makes both requires go upward). -/
example : Table.covB [(1, .req 2 0 (.ret (.var 0))), (2, .req 1 0 (.ret (.var 0)))] = false := by
  decide

end PieModel
