/-
Property C11: every query answers according to the true edge set: direct-edge and
transitive-reachability tests, incoming and outgoing adjacency (mutually symmetric, iterated in
order of first insertion, carrying the data given at that insertion), descendant iterators
(exactly the reachable nodes, each once, the sorted variant in ascending topological rank) and
topological comparison.  Removing a node, an edge or all outgoing edges of a node removes exactly
those edges and their data and nothing else.

Quantifier: all finite operation sequences (`Dag.run ops`), all nodes; the effect theorems hold
for every graph satisfying the invariant, hence (`C11_inv_reachable`) for every reachable graph.

Property statements only; the proofs are in `PieModel/Graph/{Frame*,Queries,Descendants,Refine}.lean`.
-/
import PieModel.Graph.Refine

namespace PieModel
open Dag

variable {N E : Type}

/-- Every reachable graph satisfies the invariant (C10), so the theorems below that assume
`g.Inv` apply after every operation of every operation sequence. -/
theorem C11_inv_reachable (ops : List (GOp N E)) : (Dag.run ops).Inv := C10_inv_reachable ops

/-! ### queries -/

/-- `contains_edge` answers according to the edge set. -/
theorem C11_containsEdge_iff (ops : List (GOp N E)) (a b : Nat) :
    (Dag.run ops).containsEdge a b = true ↔ (Dag.run ops).HasEdge a b :=
  containsEdge_iff (C10_inv_reachable ops).toWF a b

/-- An edge has data exactly when it is in the edge set. -/
theorem C11_getEdgeData_isSome_iff (ops : List (GOp N E)) (a b : Nat) :
    ((Dag.run ops).getEdgeData a b).isSome = true ↔ (Dag.run ops).HasEdge a b :=
  getEdgeData_isSome_iff (C10_inv_reachable ops).toWF a b

/-- `contains_transitive_edge` answers according to reachability. -/
theorem C11_containsTransitiveEdge_iff (ops : List (GOp N E)) (a b : Nat) :
    (Dag.run ops).containsTransitiveEdge a b = true ↔ (Dag.run ops).Reach a b :=
  containsTransitiveEdge_iff (C10_inv_reachable ops) a b

/-- Outgoing and incoming adjacency are mutually symmetric, both are the edge set. -/
theorem C11_adjacency_symmetric (ops : List (GOp N E)) (s t : Nat) :
    (t ∈ (Dag.run ops).outgoingEdgeNodes s ↔ s ∈ (Dag.run ops).incomingEdgeNodes t) ∧
    (t ∈ (Dag.run ops).outgoingEdgeNodes s ↔ (Dag.run ops).HasEdge s t) :=
  ⟨adjacency_symmetric (C10_inv_reachable ops).toWF s t, Iff.rfl⟩

/-- Adjacency lists have no duplicates. -/
theorem C11_adjacency_nodup (ops : List (GOp N E)) (n : Nat) :
    ((Dag.run ops).outgoingEdgeNodes n).Nodup ∧ ((Dag.run ops).incomingEdgeNodes n).Nodup :=
  ⟨(C10_inv_reachable ops).children_nodup n, (C10_inv_reachable ops).parents_nodup n⟩

/-- The outgoing iterators lose nothing: same nodes in the same order as `outgoingEdgeNodes`,
every pair carries the data of its edge, and the data iterators are the corresponding maps. -/
theorem C11_outgoing_complete (ops : List (GOp N E)) (s : Nat) :
    ((Dag.run ops).outgoingEdges s).map (·.1) = (Dag.run ops).outgoingEdgeNodes s ∧
    (∀ c d, (c, d) ∈ (Dag.run ops).outgoingEdges s ↔ (Dag.run ops).getEdgeData s c = some d) ∧
    ((Dag.run ops).outgoingEdges s).map (fun p => some p.2) =
      ((Dag.run ops).outgoingEdgeNodes s).map ((Dag.run ops).getEdgeData s) ∧
    (Dag.run ops).outgoingEdgeData s = ((Dag.run ops).outgoingEdges s).map (·.2) ∧
    ((Dag.run ops).outgoingEdgeNodeData s).map some =
      ((Dag.run ops).outgoingEdgeNodes s).map (Dag.run ops).getNodeData :=
  have h := (C10_inv_reachable ops).toWF
  ⟨outgoingEdges_map_fst h s, mem_outgoingEdges h s, outgoingEdges_map_snd h s, rfl,
    outgoingEdgeNodeData_map_some h s⟩

/-- The same for the incoming iterators. -/
theorem C11_incoming_complete (ops : List (GOp N E)) (t : Nat) :
    ((Dag.run ops).incomingEdges t).map (·.1) = (Dag.run ops).incomingEdgeNodes t ∧
    (∀ p d, (p, d) ∈ (Dag.run ops).incomingEdges t ↔ (Dag.run ops).getEdgeData p t = some d) ∧
    ((Dag.run ops).incomingEdges t).map (fun p => some p.2) =
      ((Dag.run ops).incomingEdgeNodes t).map (fun p => (Dag.run ops).getEdgeData p t) ∧
    (Dag.run ops).incomingEdgeData t = ((Dag.run ops).incomingEdges t).map (·.2) ∧
    ((Dag.run ops).incomingEdgeNodeData t).map some =
      ((Dag.run ops).incomingEdgeNodes t).map (Dag.run ops).getNodeData :=
  have h := (C10_inv_reachable ops).toWF
  ⟨incomingEdges_map_fst h t, mem_incomingEdges h t, incomingEdges_map_snd h t, rfl,
    incomingEdgeNodeData_map_some h t⟩

/-- `descendants_unsorted` of a live node: exactly the reachable nodes, each once, each with its
rank; of a node that is not live: an error. -/
theorem C11_descendantsUnsorted_spec (ops : List (GOp N E)) (n : Nat) :
    ((Dag.run ops).containsNode n = true →
      ∃ l, (Dag.run ops).descendantsUnsorted n = some l ∧ (l.map (·.2)).Nodup ∧
        (∀ m, m ∈ l.map (·.2) ↔ (Dag.run ops).Reach n m) ∧
        ∀ p ∈ l, p.1 = (Dag.run ops).topoOf p.2) ∧
    ((Dag.run ops).descendantsUnsorted n = none ↔ (Dag.run ops).containsNode n = false) :=
  ⟨fun hn => descendantsUnsorted_spec (C10_inv_reachable ops).toWF hn,
    descendantsUnsorted_eq_none_iff _ n⟩

/-- `descendants` of a live node: exactly the reachable nodes, each once, in ascending rank;
of a node that is not live: an error. -/
theorem C11_descendants_spec (ops : List (GOp N E)) (n : Nat) :
    ((Dag.run ops).containsNode n = true →
      ∃ l, (Dag.run ops).descendants n = some l ∧ l.Nodup ∧
        (∀ m, m ∈ l ↔ (Dag.run ops).Reach n m) ∧
        l.Pairwise (fun a b => (Dag.run ops).topoOf a < (Dag.run ops).topoOf b)) ∧
    ((Dag.run ops).descendants n = none ↔ (Dag.run ops).containsNode n = false) :=
  ⟨fun hn => descendants_spec (C10_inv_reachable ops) hn, descendants_eq_none_iff _ n⟩

/-- `topo_cmp` compares ranks; it is undefined exactly when one of the nodes is not live, and it
is consistent with reachability. -/
theorem C11_topoCmp_eq (ops : List (GOp N E)) (a b : Nat) :
    ((Dag.run ops).containsNode a = true → (Dag.run ops).containsNode b = true →
      (Dag.run ops).topoCmp a b =
        some (compare ((Dag.run ops).topoOf a) ((Dag.run ops).topoOf b))) ∧
    ((Dag.run ops).topoCmp a b = none ↔
      ((Dag.run ops).containsNode a = false ∨ (Dag.run ops).containsNode b = false)) ∧
    ((Dag.run ops).Reach a b → (Dag.run ops).topoCmp a b = some .lt) :=
  ⟨fun ha hb => topoCmp_eq _ ha hb, topoCmp_eq_none_iff _ a b,
    fun hr => topoCmp_of_reach (C10_inv_reachable ops) hr⟩

/-! ### effect of the mutating operations -/

/-- `addNode`: the new id is fresh, appended to the ids, has the given data and no edges; nothing
else changes. -/
theorem C11_addNode_exact (g : Dag N E) (h : g.Inv) (d : N) :
    (g.addNode d).2 = g.next ∧ g.containsNode g.next = false ∧
    (g.addNode d).1.ids = g.ids ++ [g.next] ∧
    (∀ x, (g.addNode d).1.childrenOf x = g.childrenOf x) ∧
    (∀ x, (g.addNode d).1.parentsOf x = g.parentsOf x) ∧
    (g.addNode d).1.childrenOf g.next = [] ∧ (g.addNode d).1.parentsOf g.next = [] ∧
    (∀ a b, (g.addNode d).1.getEdgeData a b = g.getEdgeData a b) ∧
    (∀ x, (g.addNode d).1.getNodeData x = if x = g.next then some d else g.getNodeData x) :=
  ⟨rfl, h.not_live_next, ids_addNode g d, childrenOf_addNode d h.toWF, parentsOf_addNode d h.toWF,
    childrenOf_addNode_new d h.toWF, parentsOf_addNode_new d h.toWF, fun _ _ => rfl,
    getNodeData_addNode d h.toWF⟩

/-- The verdict of `addEdge` (`.error`: see `C10_addEdge_cycle_iff`, `C10_addEdge_missing_iff`). -/
theorem C11_addEdge_verdict (g : Dag N E) (h : g.Inv) (s t : Nat) (d : E) :
    ((g.addEdge s t d).2 = .ok false ↔ g.HasEdge s t) ∧
    ((g.addEdge s t d).2 = .ok true ↔
      (g.containsNode s = true ∧ g.containsNode t = true ∧ s ≠ t ∧ ¬ g.HasEdge s t ∧
        ¬ g.Reach t s)) :=
  ⟨addEdge_ok_false_iff h s t d, addEdge_ok_true_iff h s t d⟩

/-- A new edge is appended to the children of `s` and to the parents of `t`, its data is stored;
no other adjacency list, edge datum, node datum or id changes (only ranks may). -/
theorem C11_addEdge_new (g : Dag N E) (h : g.Inv) (s t : Nat) (d : E)
    (hr : (g.addEdge s t d).2 = .ok true) :
    (∀ x, (g.addEdge s t d).1.childrenOf x =
      if x = s then g.childrenOf x ++ [t] else g.childrenOf x) ∧
    (∀ x, (g.addEdge s t d).1.parentsOf x =
      if x = t then g.parentsOf x ++ [s] else g.parentsOf x) ∧
    (∀ a b, (g.addEdge s t d).1.getEdgeData a b =
      if a = s ∧ b = t then some d else g.getEdgeData a b) ∧
    (∀ x, (g.addEdge s t d).1.getNodeData x = g.getNodeData x) ∧
    (g.addEdge s t d).1.ids = g.ids :=
  ⟨childrenOf_addEdge_new h hr, parentsOf_addEdge_new h hr, getEdgeData_addEdge_new h hr,
    getNodeData_addEdge h s t d, ids_addEdge h s t d⟩

/-- Re-inserting an existing edge changes nothing: position in both adjacency lists *and* data
are kept (more generally, any result other than `.ok true` leaves the graph as it was). -/
theorem C11_addEdge_existing_noop (g : Dag N E) (h : g.Inv) (s t : Nat) (d : E) :
    (g.HasEdge s t → g.addEdge s t d = (g, .ok false)) ∧
    ((g.addEdge s t d).2 ≠ .ok true → (g.addEdge s t d).1 = g) :=
  ⟨fun he => addEdge_existing_noop h d he, fun hr => addEdge_fst_of_ne_ok_true h hr⟩

/-- `removeEdge` returns the data of the edge (`none`, and an unchanged graph, if there is no such
edge) and removes exactly that edge and its data. -/
theorem C11_removeEdge_exact (g : Dag N E) (h : g.Inv) (s t : Nat) :
    (g.removeEdge s t).2 = g.getEdgeData s t ∧
    (¬ g.HasEdge s t → g.removeEdge s t = (g, none)) ∧
    (∀ x, (g.removeEdge s t).1.childrenOf x =
      if x = s then (g.childrenOf x).erase t else g.childrenOf x) ∧
    (∀ x, (g.removeEdge s t).1.parentsOf x =
      if x = t then (g.parentsOf x).erase s else g.parentsOf x) ∧
    (∀ a b, (g.removeEdge s t).1.getEdgeData a b =
      if a = s ∧ b = t then none else g.getEdgeData a b) ∧
    (∀ x, (g.removeEdge s t).1.getNodeData x = g.getNodeData x) ∧
    (g.removeEdge s t).1.ids = g.ids ∧ (g.removeEdge s t).1.ranks = g.ranks :=
  ⟨removeEdge_snd h.toWF s t, fun hc => removeEdge_of_not_edge g hc,
    childrenOf_removeEdge h.toWF s t, parentsOf_removeEdge h.toWF s t,
    getEdgeData_removeEdge h.toWF s t, getNodeData_removeEdge g s t, ids_removeEdge g s t,
    ranks_removeEdge g s t⟩

/-- `removeOutgoingEdgesOfNode` returns all outgoing edges with their data (`none` if there are
none, in particular if the node is not live) and removes exactly those edges and their data. -/
theorem C11_removeOutgoing_exact (g : Dag N E) (h : g.Inv) (s : Nat) :
    (g.removeOutgoingEdgesOfNode s).2 =
      (if g.childrenOf s = [] then none else some (g.outgoingEdges s)) ∧
    ((g.removeOutgoingEdgesOfNode s).2 = some (g.outgoingEdges s) ↔
      g.containsNode s = true ∧ g.childrenOf s ≠ []) ∧
    (∀ x, (g.removeOutgoingEdgesOfNode s).1.childrenOf x = if x = s then [] else g.childrenOf x) ∧
    (∀ x, (g.removeOutgoingEdgesOfNode s).1.parentsOf x = (g.parentsOf x).erase s) ∧
    (∀ a b, (g.removeOutgoingEdgesOfNode s).1.getEdgeData a b =
      if a = s then none else g.getEdgeData a b) ∧
    (∀ x, (g.removeOutgoingEdgesOfNode s).1.getNodeData x = g.getNodeData x) ∧
    (g.removeOutgoingEdgesOfNode s).1.ids = g.ids ∧
    (g.removeOutgoingEdgesOfNode s).1.ranks = g.ranks :=
  ⟨removeOutgoing_snd g s, removeOutgoing_snd_isSome_iff g s, childrenOf_removeOutgoing h.toWF s,
    parentsOf_removeOutgoing h.toWF s, getEdgeData_removeOutgoing h.toWF s,
    getNodeData_removeOutgoing h.toWF s, ids_removeOutgoing g s, ranks_removeOutgoing g s⟩

/-- `removeNode` removes the node, erases it from every adjacency list, removes exactly the edge
data with that endpoint, and keeps all other node data. -/
theorem C11_removeNode_exact (g : Dag N E) (h : g.Inv) (n : Nat) :
    (g.removeNode n).2 = g.containsNode n ∧
    (g.removeNode n).1.ids = g.ids.erase n ∧
    (∀ x, (g.removeNode n).1.containsNode x = if x = n then false else g.containsNode x) ∧
    (∀ x, (g.removeNode n).1.childrenOf x = if x = n then [] else (g.childrenOf x).erase n) ∧
    (∀ x, (g.removeNode n).1.parentsOf x = if x = n then [] else (g.parentsOf x).erase n) ∧
    (∀ a b, (g.removeNode n).1.getEdgeData a b =
      if a = n ∨ b = n then none else g.getEdgeData a b) ∧
    (∀ x, (g.removeNode n).1.getNodeData x = if x = n then none else g.getNodeData x) :=
  ⟨removeNode_snd g n, ids_removeNode g n, containsNode_removeNode h.toWF n,
    childrenOf_removeNode h.toWF n, parentsOf_removeNode h.toWF n, getEdgeData_removeNode h.toWF n,
    getNodeData_removeNode h.toWF n⟩

/-- `removeNode` preserves the relative rank order of the remaining nodes. -/
theorem C11_removeNode_rank_order (g : Dag N E) (h : g.Inv) (n a b : Nat) (ha : a ≠ n) (hb : b ≠ n)
    (hla : g.containsNode a = true) (hlb : g.containsNode b = true) :
    ((g.removeNode n).1.topoOf a < (g.removeNode n).1.topoOf b ↔ g.topoOf a < g.topoOf b) ∧
    (g.removeNode n).1.topoCmp a b = g.topoCmp a b := by
  refine ⟨topoOf_removeNode_lt_iff h.toWF n ha hb hla hlb, ?_⟩
  have hla' : (g.removeNode n).1.containsNode a = true := by
    rw [containsNode_removeNode h.toWF, if_neg ha]; exact hla
  have hlb' : (g.removeNode n).1.containsNode b = true := by
    rw [containsNode_removeNode h.toWF, if_neg hb]; exact hlb
  rw [topoCmp_eq _ hla' hlb', topoCmp_eq _ hla hlb,
    compare_topoOf_removeNode h.toWF n ha hb hla hlb]

/-- `setNodeData` changes only that datum (if the node is live). -/
theorem C11_setNodeData_exact (g : Dag N E) (n : Nat) (d : N) :
    (∀ x, (g.setNodeData n d).getNodeData x =
      if x = n ∧ g.containsNode n = true then some d else g.getNodeData x) ∧
    (∀ x, (g.setNodeData n d).childrenOf x = g.childrenOf x) ∧
    (∀ x, (g.setNodeData n d).parentsOf x = g.parentsOf x) ∧
    (∀ a b, (g.setNodeData n d).getEdgeData a b = g.getEdgeData a b) ∧
    (g.setNodeData n d).ids = g.ids ∧ (g.setNodeData n d).ranks = g.ranks :=
  ⟨getNodeData_setNodeData g n d, childrenOf_setNodeData g n d, parentsOf_setNodeData g n d,
    fun _ _ => rfl, ids_setNodeData g n d, ranks_setNodeData g n d⟩

/-- `setEdgeData` changes only that datum (if the edge is present). -/
theorem C11_setEdgeData_exact (g : Dag N E) (s t : Nat) (d : E) :
    (∀ a b, (g.setEdgeData s t d).getEdgeData a b =
      if a = s ∧ b = t ∧ (g.getEdgeData s t).isSome = true then some d else g.getEdgeData a b) ∧
    (g.setEdgeData s t d).nodes = g.nodes :=
  ⟨getEdgeData_setEdgeData g s t d, rfl⟩

/-! ### first-insertion order: refinement of the abstract edge-set specification -/

/-- Every operation commutes with the abstraction function. -/
theorem C11_refines_spec_step (g : Dag N E) (h : g.Inv) (op : GOp N E) :
    (g.step op).abs = g.abs.step op := abs_step h op

/-- The model computes what the specification computes: live nodes with data in creation order,
outgoing and incoming edges with data in order of first insertion. -/
theorem C11_refines_spec (ops : List (GOp N E)) : (Dag.run ops).abs = SpecG.run ops := abs_run ops

/-- In the abstraction, incoming and outgoing lists describe the same edges with the same data. -/
theorem C11_incoming_matches_outgoing (ops : List (GOp N E)) (s t : Nat) (d : E) :
    (s, d) ∈ (SpecG.run ops).inc t ↔ (t, d) ∈ (SpecG.run ops).out s := by
  rw [← abs_run]; exact abs_inc_iff_out (C10_inv_reachable ops).toWF s t d

/-! ### non-vacuity -/

/-- Six nodes with data `10..15`.  Edges in insertion order `2→3, 1→3, 0→2, 0→1, 3→4, 5→0`
(data `100..105`): a diamond `0 → {2, 1} → 3` with a tail `3 → 4`, and `5 → 0`, whose insertion
forces a rank reorder (node 5 moves to rank 1). -/
def c11Ops : List (GOp Nat Nat) :=
  [.addNode 10, .addNode 11, .addNode 12, .addNode 13, .addNode 14, .addNode 15,
    .addEdge 2 3 100, .addEdge 1 3 101, .addEdge 0 2 102, .addEdge 0 1 103, .addEdge 3 4 104,
    .addEdge 5 0 105]

def c11Sample : Dag Nat Nat := Dag.run c11Ops

example : c11Sample.ids = [0, 1, 2, 3, 4, 5] ∧ c11Sample.ranks = [2, 3, 4, 5, 6, 1] := by decide

/-- Adjacency in order of first insertion, with the data of that insertion. -/
example : c11Sample.outgoingEdges 0 = [(2, 102), (1, 103)] ∧
    c11Sample.incomingEdges 3 = [(2, 100), (1, 101)] := by decide

/-- Re-adding the existing edge `0 → 2` with other data: `.ok false`, adjacency order and data
unchanged on both sides. -/
example :
    (c11Sample.addEdge 0 2 999).2 = .ok false ∧
    (c11Sample.addEdge 0 2 999).1.outgoingEdges 0 = [(2, 102), (1, 103)] ∧
    (c11Sample.addEdge 0 2 999).1.incomingEdges 2 = [(0, 102)] ∧
    (c11Sample.addEdge 0 2 999).1.getEdgeData 0 2 = some 102 ∧
    (c11Sample.addEdge 0 2 999).1.ranks = c11Sample.ranks :=
  ⟨rfl, by decide, by decide, by decide, by decide⟩

/-- The same through the (non-computable) specification: after re-adding `0 → 2` and then removing
`0 → 1`, the specification's lists are what the model computes. -/
example :
    (SpecG.run (c11Ops ++ [.addEdge 0 2 999])).out 0 = [(2, 102), (1, 103)] ∧
    (SpecG.run (c11Ops ++ [.addEdge 0 2 999])).inc 3 = [(2, 100), (1, 101)] ∧
    (SpecG.run (c11Ops ++ [.addEdge 0 2 999, .removeEdge 0 1])).out 0 = [(2, 102)] ∧
    (SpecG.run c11Ops).nodes = [(0, 10), (1, 11), (2, 12), (3, 13), (4, 14), (5, 15)] := by
  simp only [← C11_refines_spec]; decide

/-- Descendants of the diamond: each node once; the sorted variant in ascending rank (`1` before
`2` although `2` was inserted first), the unsorted one in DFS order with ranks attached. -/
example :
    c11Sample.descendants 0 = some [1, 2, 3, 4] ∧
    c11Sample.descendants 5 = some [0, 1, 2, 3, 4] ∧
    c11Sample.descendantsUnsorted 0 = some [(3, 1), (5, 3), (6, 4), (4, 2)] ∧
    c11Sample.descendants 7 = none := by decide

/-- Reachability and comparison. -/
example :
    c11Sample.containsTransitiveEdge 5 4 = true ∧ c11Sample.containsTransitiveEdge 4 5 = false ∧
    c11Sample.containsEdge 5 4 = false ∧ c11Sample.topoCmp 5 4 = some .lt := by decide

/-- Removals remove exactly what they should. -/
example :
    (c11Sample.removeEdge 0 2).2 = some 102 ∧
    (c11Sample.removeEdge 0 2).1.outgoingEdges 0 = [(1, 103)] ∧
    (c11Sample.removeOutgoingEdgesOfNode 0).2 = some [(2, 102), (1, 103)] ∧
    (c11Sample.removeOutgoingEdgesOfNode 0).1.incomingEdges 1 = [] ∧
    (c11Sample.removeNode 3).1.outgoingEdges 1 = [] ∧
    (c11Sample.removeNode 3).1.incomingEdges 4 = [] ∧
    (c11Sample.removeNode 3).1.ranks = [2, 3, 4, 5, 1] := by decide

end PieModel
