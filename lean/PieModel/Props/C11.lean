import PieModel.Graph.Model
namespace PieModel
theorem C11_placeholder : (Dag.empty : Dag Nat Nat).last = 0 := rfl
end PieModel
