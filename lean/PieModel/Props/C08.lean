import PieModel.Build.Pie
namespace PieModel
theorem C08_placeholder : True := trivial
end PieModel
