/-
Property C08: "After a task executes, the dependencies Pie holds for it are exactly the requires,
reads and writes it performed in that execution, each with the checker it passed and a stamp of
what it saw, and nothing left over from earlier executions."

* `C08_reset_clears`: the execute prologue empties the dependency list;
* `C08_recorded_eq_performed`: after an execution that returned, `depsFrom node` is
  `mergeAll [] ops`, `ops` the operations the body performed in order (`C08.tdOps`), where
  `merge` keeps ONE dependency per target: a new target is appended; a repeated `require`
  replaces the data in place (last wins); a repeated `read`/`write` is dropped (first wins) —
  this is known finding K2, so the literal "exactly the performed operations" holds under
  `C08.OneChecker` (`C08_one_checker`: first-occurrence projection);
* `C08_no_leftover`, `C08_dropped_never_triggers`.

The stack discipline `hframe` ("no task is reset or executed while it is the current frame of an
enclosing execution", as a statement on the tracker stream: `KNoExec t …`) is not a hypothesis: it
is derived for every well-formed session state in `Build/StackTD.lean` / `Build/StackBU.lean`
(`C08_hframe_td`, `C08_hframe_bu`).  The law for the body interpreters is in
`Build/DepLaw.lean`, `Build/DepLawBU.lean`; the frame lemma in `Build/FrameExec*.lean`.
-/
import PieModel.Build.DepLawBU
import PieModel.Build.StackBU
import PieModel.Build.Declared
import PieModel.Build.TraceExec
import PieModel.Props.C09
import PieModel.Props.C19

namespace PieModel
open Sess SessL C08

variable (sem : Sem) (body : Nat → Prog)

/-- Every target is accessed in one way only during the execution (same kind, same checker, and
hence — the task being deterministic — the same stamp). -/
def C08.OneChecker (ops : List Dep) : Prop :=
  ∀ d₁ ∈ ops, ∀ d₂ ∈ ops, d₁.key = d₂.key → d₁ = d₂

/-- A sufficient, decidable form of the stack-discipline hypothesis. -/
theorem C08.noExec_of_drop {tn : Nat} {s s' : Sess}
    (h : Ev.executeStart tn ∉ s'.trace.drop s.trace.length) : KNoExec tn s s' := by
  intro evs he hm
  rw [he, List.drop_left] at h
  exact h hm

/-- After the execute prologue the task has no dependencies. -/
theorem C08_reset_clears (s₁ : Sess) (h : s₁.store.WF) (node t : Nat) :
    (execStart s₁ node t).store.depsFrom node = [] := by
  show (s₁.store.resetTask node).depsFrom node = []
  rw [Store.depsFrom_resetTask h, if_pos rfl]

/-- The same for the bottom-up prologue. -/
theorem C08_reset_clears_bu (s : Sess) (h : s.store.WF) (node : Nat) :
    ({ s with store := s.store.resetTask node, cur := some node } : Sess).store.depsFrom node
      = [] := by
  show (s.store.resetTask node).depsFrom node = []
  rw [Store.depsFrom_resetTask h, if_pos rfl]

/-- The law for the body interpreter (restated from `C08.tdRun_law`): the run of `p` in frame
`node` merges the performed operations into `depsFrom node`. -/
theorem C08_tdRun_law (f : Nat) (s s' : Sess) (p : Prog) (o : Int) (node tn : Nat)
    (h : SessWF s) (hc : s.cur = some node) (htn : s.store.taskOf node = some tn)
    (hnr : Dep.reserved ∉ s.store.depsFrom node)
    (hr : tdRun sem body f s p = (s', .ok o)) :
    s'.store.depsFrom node = mergeAll (s.store.depsFrom node) (tdOps sem body f s p) :=
  tdRun_law f s p s' o h hc htn hnr hr (tdRun_noExec_self f h hc htn hr)

/-- **Stack discipline** (`hframe`), top-down: while the body of task `tn` runs in frame `node`
and returns, no execution of `tn` — hence no reset of `node` — starts; nor of any task that
transitively depends on `tn`. -/
theorem C08_hframe_td (f : Nat) (s s' : Sess) (p : Prog) (o : Int) (node : Nat)
    (h : SessWF s) (hc : s.cur = some node) (hr : tdRun sem body f s p = (s', .ok o)) :
    ∀ z tz, s.store.taskOf z = some tz → (z = node ∨ s.store.g.Reach z node) → KNoExec tz s s' :=
  fun z tz hz hp => (k_tdStack f).run s p s' o node h hc hr z tz hz hp

/-- The same in the bottom-up context. -/
theorem C08_hframe_bu (f : Nat) (s s' : Sess) (p : Prog) (o : Int) (node : Nat)
    (h : SessWF s) (hc : s.cur = some node) (hr : buRun sem body f s p = (s', .ok o)) :
    ∀ z tz, s.store.taskOf z = some tz → (z = node ∨ s.store.g.Reach z node) → KNoExec tz s s' :=
  fun z tz hz hp => (k_buStack f).run s p s' o node h hc hr z tz hz hp

/-- **C08.** If `tdMake … t` took the execute branch (the task was not yet consistent in this
session, the check said "inconsistent", the body returned `o`), then the dependency list of the
task in the final store is the merge, starting from the empty list, of the operations the body
performed, in order. -/
theorem C08_recorded_eq_performed (f : Nat) (s s₁ s₂ : Sess) (t : Nat) (st : Store) (node : Nat)
    (o : Int) (h : SessWF s) (hn : s.store.getOrCreateTaskNode t = (st, node))
    (hnc : node ∉ s.consistent)
    (hc : tdCheck sem body f { s with store := st } node = (s₁, .ok none))
    (hb : tdRun sem body f (execStart s₁ node t) (body t) = (s₂, .ok o)) :
    tdMake sem body (f + 1) s t = (execFinish s₂ s₁.cur node t o, .ok o) ∧
    (execFinish s₂ s₁.cur node t o).store.depsFrom node =
      mergeAll [] (tdOps sem body f (execStart s₁ node t) (body t)) := by
  constructor
  · rw [C09_inconsistent_triggers_execution sem body f s s₁ t st node hn hnc hc, hb]
  · have hst : st = (s.store.getOrCreateTaskNode t).1 := by rw [hn]
    have hnode : node = (s.store.getOrCreateTaskNode t).2 := by rw [hn]
    subst hst; subst hnode
    have e1 := h.getTask t
    have hd := Store.taskOf_getOrCreateTaskNode_self h.store t
    have e2 := (tdCheck_ext sem body f e1.wf _).out hc
    have hd2 := e2.le.task _ _ hd
    have e3 := (e2.wf.startExec hd2).emit (.executeStart t)
    have hwf : SessWF (execStart s₁ (s.store.getOrCreateTaskNode t).2 t) := e3.wf
    have hclr := C08_reset_clears s₁ e2.wf.store (s.store.getOrCreateTaskNode t).2 t
    have law := C08_tdRun_law sem body f _ s₂ _ o _ t hwf rfl (e3.le.task _ _ hd2)
      (by rw [hclr]; simp) hb
    rw [hclr] at law
    rw [← law]
    simp [execFinish]

/-- The law for the bottom-up body interpreter. -/
theorem C08_buRun_law (f : Nat) (s s' : Sess) (p : Prog) (o : Int) (node tn : Nat)
    (h : SessWF s) (hc : s.cur = some node) (htn : s.store.taskOf node = some tn)
    (hnr : Dep.reserved ∉ s.store.depsFrom node)
    (hr : buRun sem body f s p = (s', .ok o)) :
    s'.store.depsFrom node = mergeAll (s.store.depsFrom node) (buOps sem body f s p) :=
  buRun_law f s p s' o h hc htn hnr hr (buRun_noExec_self f h hc htn hr)

/-- **C08, bottom-up.** If `buExec` (called by `buMake` for a new task and by
`execute_and_schedule` for a scheduled one) returns, the dependency list of the executed task is
the merge, starting from the empty list, of the operations its body performed, in order. -/
theorem C08_recorded_eq_performed_bu (f : Nat) (s s₂ : Sess) (t node : Nat) (o : Int)
    (h : SessWF s) (ht : s.store.taskOf node = some t)
    (hb : buRun sem body f (buExecSession s node t) (body t) = (s₂, .ok o)) :
    (buExec sem body (f + 1) s t node).2 = .ok o ∧
    (buExec sem body (f + 1) s t node).1.store.depsFrom node =
      mergeAll [] (buOps sem body f (buExecSession s node t) (body t)) := by
  have e3 := (h.startExec ht).emit (.executeStart t)
  have hwf : SessWF (buExecSession s node t) := e3.wf
  have hclr : (buExecSession s node t).store.depsFrom node = [] := C08_reset_clears_bu s h.store node
  have law := C08_buRun_law sem body f _ s₂ _ o _ t hwf rfl (e3.le.task _ _ ht)
    (by rw [hclr]; simp) hb
  rw [hclr] at law
  have hb' : buRun sem body f (({ ({ s with store := s.store.resetTask node } : Sess) with
      cur := some node } : Sess).emit (.executeStart t)) (body t) = (s₂, .ok o) := hb
  constructor
  · simp only [buExec, hb']
  · simp only [buExec, hb']
    rw [← law]
    simp

/-- **C08 on the tracker stream.** The dependency list of the task after its execution is the
merge of the dependencies *declared* by the events of this execution: the `requireEnd`, `readEnd`,
`writeEnd` events between `executeStart t` and `executeEnd t o` that are not inside a nested
execution, each with the checker and the stamp it reports. -/
theorem C08_recorded_eq_declared (f : Nat) (s s₁ s₂ : Sess) (t : Nat) (st : Store) (node : Nat)
    (o : Int) (h : SessWF s) (hn : s.store.getOrCreateTaskNode t = (st, node))
    (hnc : node ∉ s.consistent)
    (hc : tdCheck sem body f { s with store := st } node = (s₁, .ok none))
    (hb : tdRun sem body f (execStart s₁ node t) (body t) = (s₂, .ok o)) :
    ∃ bodyEvs,
      (tdMake sem body (f + 1) s t).1.trace =
        s₁.trace ++ [.executeStart t] ++ bodyEvs ++ [.executeEnd t o] ∧
      (tdMake sem body (f + 1) s t).1.store.depsFrom node = mergeAll [] (declared bodyEvs) := by
  obtain ⟨h1, h2⟩ := C08_recorded_eq_performed sem body f s s₁ s₂ t st node o h hn hnc hc hb
  obtain ⟨evs, ht, hd⟩ := tdRun_declared f (cur := node) rfl hb
  refine ⟨evs, ?_, ?_⟩
  · rw [h1]
    simp only [execFinish, SessL.markConsistent_trace, ht]
    rfl
  · rw [h1, hd]; exact h2

/-- The same for `buExec`. -/
theorem C08_recorded_eq_declared_bu (f : Nat) (s s₂ : Sess) (t node : Nat) (o : Int)
    (h : SessWF s) (ht : s.store.taskOf node = some t)
    (hb : buRun sem body f (buExecSession s node t) (body t) = (s₂, .ok o)) :
    ∃ bodyEvs,
      (buExec sem body (f + 1) s t node).1.trace =
        s.trace ++ [.executeStart t] ++ bodyEvs ++ [.executeEnd t o] ∧
      (buExec sem body (f + 1) s t node).1.store.depsFrom node = mergeAll [] (declared bodyEvs) := by
  obtain ⟨_, h2⟩ := C08_recorded_eq_performed_bu sem body f s s₂ t node o h ht hb
  obtain ⟨evs, htr, hd⟩ := buRun_declared f (cur := node) rfl hb
  refine ⟨evs, ?_, by rw [hd]; exact h2⟩
  have hb' : buRun sem body f (({ ({ s with store := s.store.resetTask node } : Sess) with
      cur := some node } : Sess).emit (.executeStart t)) (body t) = (s₂, .ok o) := hb
  simp only [buExec, hb']
  show s₂.trace ++ [.executeEnd t o] = _
  rw [htr]
  rfl

/-- What the law says about a store: nothing but declared dependencies, no target that was not
accessed. -/
theorem C08_no_leftover_store {st : Store} (hw : st.WF) {node : Nat} {ops : List Dep}
    (hd : st.depsFrom node = mergeAll [] ops) (hres : Dep.reserved ∉ ops) :
    (∀ d ∈ st.depsFrom node, d ∈ ops) ∧
    (∀ k, hasKey ops k = false → hasKey (st.depsFrom node) k = false) ∧
    (∀ r dst, st.resOf dst = some r → hasKey ops (some (.res r)) = false →
      ¬ st.g.HasEdge node dst) ∧
    (∀ t' dst, st.taskOf dst = some t' → hasKey ops (some (.task t')) = false →
      ¬ st.g.HasEdge node dst) := by
  have hk : ∀ k, hasKey ops k = false → hasKey (st.depsFrom node) k = false := by
    intro k hk
    rw [hd, hasKey_mergeAll, hk]; rfl
  refine ⟨fun d hm => ?_, hk, fun r dst hr hno he => ?_, fun t' dst ht hno he => ?_⟩
  · rw [hd] at hm
    rcases mem_mergeAll hm with h1 | h1
    · cases h1
    · exact h1
  · have := (hw.hasEdge_res_iff node hr).mp he
    rw [hk _ hno] at this; cases this
  · have hnr : Dep.reserved ∉ st.depsFrom node := by
      rw [hd]; exact mergeAll_noReserved (by simp) hres
    have := (hw.hasEdge_task_iff node ht hnr).mp he
    rw [hk _ hno] at this; cases this

/-- **C08, no leftovers.** After the execution, every recorded dependency was declared in this
execution, and a task or resource this execution did not access is not the target of any edge
from the task — whatever earlier executions had recorded. -/
theorem C08_no_leftover (f : Nat) (s s₁ s₂ : Sess) (t : Nat) (st : Store) (node : Nat)
    (o : Int) (h : SessWF s) (hn : s.store.getOrCreateTaskNode t = (st, node))
    (hnc : node ∉ s.consistent)
    (hc : tdCheck sem body f { s with store := st } node = (s₁, .ok none))
    (hb : tdRun sem body f (execStart s₁ node t) (body t) = (s₂, .ok o)) :
    let fin := (tdMake sem body (f + 1) s t).1.store
    let ops := tdOps sem body f (execStart s₁ node t) (body t)
    (∀ d ∈ fin.depsFrom node, d ∈ ops) ∧
    (∀ k, hasKey ops k = false → hasKey (fin.depsFrom node) k = false) ∧
    (∀ r dst, fin.resOf dst = some r → hasKey ops (some (.res r)) = false →
      ¬ fin.g.HasEdge node dst) ∧
    (∀ t' dst, fin.taskOf dst = some t' → hasKey ops (some (.task t')) = false →
      ¬ fin.g.HasEdge node dst) := by
  intro fin ops
  have hw : fin.WF := (tdMake_ext sem body (f + 1) h t).wf.store
  obtain ⟨h1, h2⟩ := C08_recorded_eq_performed sem body f s s₁ s₂ t st node o h hn hnc hc hb
  have hfin : fin = (execFinish s₂ s₁.cur node t o).store := by
    show (tdMake sem body (f + 1) s t).1.store = _; rw [h1]
  exact C08_no_leftover_store hw (by rw [hfin]; exact h2) (reserved_not_mem_tdOps f _ _)

/-- Under `OneChecker` the recorded list is exactly the first-occurrence projection of the
performed operations, each with its checker and its stamp. -/
theorem C08_one_checker {st : Store} {node : Nat} {ops : List Dep}
    (hd : st.depsFrom node = mergeAll [] ops) (h1 : OneChecker ops) :
    st.depsFrom node = firstOcc [] ops := by
  rw [hd]; exact mergeAll_eq_firstOcc [] ops (by simpa [OneChecker] using h1)

/-- If no target is accessed twice, the recorded list is literally the list of performed
operations. -/
theorem C08_distinct_targets {st : Store} {node : Nat} {ops : List Dep}
    (hd : st.depsFrom node = mergeAll [] ops)
    (hdist : (ops.map Dep.key).Nodup) : st.depsFrom node = ops := by
  rw [hd]
  clear hd
  suffices ∀ l, (∀ e ∈ l, ∀ d ∈ ops, e.key ≠ d.key) → mergeAll l ops = l ++ ops by
    simpa using this [] (by simp)
  induction ops with
  | nil => intro l _; simp
  | cons d ops ih =>
    intro l hl
    simp only [List.map_cons, List.nodup_cons] at hdist
    have hno : hasKey l d.key = false := by
      cases hh : hasKey l d.key
      · rfl
      · obtain ⟨e, he, hk⟩ := (hasKey_iff l d.key).mp hh
        exact absurd hk (hl e he d (by simp))
    rw [mergeAll_cons, merge_of_not_hasKey hno, ih hdist.2]
    · simp
    · intro e he d' hd'
      rw [List.mem_append, List.mem_singleton] at he
      rcases he with he | rfl
      · exact hl e he d' (by simp [hd'])
      · intro hk
        exact hdist.1 (by rw [hk]; exact List.mem_map_of_mem hd')

/-! ### validation looks at the recorded list only -/

/-- **C08, consequence for validation.** The top-down check of a task consults exactly its
recorded dependencies (`C09_tdCheck_eq`), i.e. the operations of its latest execution.  So if
those are resource dependencies that are all consistent, the task is reused without execution —
whatever happened to any resource the latest execution did not access (`s` and `s₀` may differ
arbitrarily there): a dropped dependency never triggers. -/
theorem C08_dropped_never_triggers (f : Nat) (s s₀ : Sess) (t : Nat) (st : Store) (node : Nat)
    (o : Int) (ops : List Dep) (hn : s.store.getOrCreateTaskNode t = (st, node))
    (hnc : node ∉ s.consistent) (ho : st.taskOutput node = some o)
    (hd : st.depsFrom node = mergeAll [] ops) (hf : (st.depsFrom node).length < f)
    (hall : ∀ d ∈ ops, resConsistent sem s₀ d)
    (hsame : ∀ r, hasKey ops (some (.res r)) = true → s.content r = s₀.content r) :
    (tdMake sem body (f + 2) s t).2 = .ok o ∧
    ∀ t', Ev.executeStart t' ∉ (tdMake sem body (f + 2) s t).1.trace.drop s.trace.length := by
  have hall' : ∀ d ∈ st.depsFrom node, resConsistent sem s d := by
    intro d hm
    rw [hd] at hm
    rcases mem_mergeAll hm with h1 | h1
    · cases h1
    · have hc0 := hall d h1
      have hk : hasKey ops d.key = true := (hasKey_iff ops d.key).mpr ⟨d, h1, rfl⟩
      cases d with
      | reserved => exact hc0
      | require _ _ _ => exact hc0
      | read r c stamp => simp only [resConsistent] at hc0 ⊢; rw [hsame r hk]; exact hc0
      | write r c stamp => simp only [resConsistent] at hc0 ⊢; rw [hsame r hk]; exact hc0
  obtain ⟨h1, h2⟩ := C09_consistent_resources_reuse sem body f s t st node o hn hnc ho hf hall'
  rw [h1]
  refine ⟨rfl, fun t' => ?_⟩
  simp only [SessL.markConsistent_trace, List.drop_left]
  exact h2 t'

/-! ### non-vacuity -/

open DecEqAux

/-- Task 0 reads resource 9 and then, depending on what it saw, resource 7 or resource 8.
Task 1 (known finding K2): reads 9 with two checkers, requires 0 with two checkers. -/
def c08Tbl : List (Nat × Script) :=
  [(0, .read 9 0 (.ite (.eq (.var 0) (.const 1)) (.read 7 0 (.ret (.var 1)))
        (.read 8 0 (.ret (.var 1))))),
   (1, .read 9 0 (.read 9 1 (.req 0 0 (.req 0 3 (.ret (.const 0))))))]

/-- First session with `9 ↦ 1`: task 0 reads 9 and 7.  Then 9 is changed to 2. -/
def c08Pie : PieSt :=
  ((sessionRequire stdSem (bodyOf c08Tbl) 100
      (PieSt.newSession { fs := [(9, 1), (7, 10), (8, 20)] }) 0).1.toPie).setContent 9 (some 2)

example : c08Pie.store.depsFrom 0 =
    [.read 9 0 (.optInt (some 1)), .read 7 0 (.optInt (some 10))] := by decide +kernel

/-- The second execution of task 0, in a new session. -/
def c08S : Sess := c08Pie.newSession
def c08St : Store := (c08S.store.getOrCreateTaskNode 0).1
def c08S1 : Sess := (tdCheck stdSem (bodyOf c08Tbl) 50 { c08S with store := c08St } 0).1
def c08S2 : Sess := (tdRun stdSem (bodyOf c08Tbl) 50 (execStart c08S1 0 0) (bodyOf c08Tbl 0)).1

theorem c08_wf : SessWF c08S := by
  have h0 : SessWF (PieSt.newSession { fs := [(9, 1), (7, 10), (8, 20)] }) :=
    C19_newSession_wf _ Store.WF.empty
  have h1 := (sessionRequire_ext stdSem (bodyOf c08Tbl) 100 h0 0).wf
  exact C19_newSession_wf _ (by
    show (PieSt.setContent _ 9 (some 2)).store.WF
    rw [C19_setContent_store]; exact h1.store)

/-- The hypotheses of the theorem hold on this run, ... -/
theorem c08_instance :
    (execFinish c08S2 c08S1.cur 0 0 20).store.depsFrom 0 =
      mergeAll [] (tdOps stdSem (bodyOf c08Tbl) 50 (execStart c08S1 0 0) (bodyOf c08Tbl 0)) :=
  (C08_recorded_eq_performed stdSem (bodyOf c08Tbl) 50 c08S c08S1 c08S2 0 c08St 0 20 c08_wf
    (Prod.ext rfl (by decide +kernel)) (by decide +kernel)
    (Prod.ext rfl (by decide +kernel)) (Prod.ext rfl (by decide +kernel))).2

/-- ... the performed operations are the two reads of THIS execution, ... -/
example : tdOps stdSem (bodyOf c08Tbl) 50 (execStart c08S1 0 0) (bodyOf c08Tbl 0) =
    [.read 9 0 (.optInt (some 2)), .read 8 0 (.optInt (some 20))] := by decide +kernel

/-- ... and they are what is recorded: the read of resource 7 is gone. -/
example : (tdMake stdSem (bodyOf c08Tbl) 51 c08S 0).1.store.depsFrom 0 =
    [.read 9 0 (.optInt (some 2)), .read 8 0 (.optInt (some 20))] := by decide +kernel

/-- The same list read off the tracker stream of the second execution. -/
example : (tdMake stdSem (bodyOf c08Tbl) 51 c08S 0).1.trace =
      [.checkResStart 9 0 (.optInt (some 1)), .checkResEnd 9 0 (.optInt (some 1)) (.ok false),
       .executeStart 0, .readStart 9 0, .readEnd 9 0 (.optInt (some 2)),
       .readStart 8 0, .readEnd 8 0 (.optInt (some 20)), .executeEnd 0 20] ∧
    declared [.readStart 9 0, .readEnd 9 0 (.optInt (some 2)),
       .readStart 8 0, .readEnd 8 0 (.optInt (some 20))] =
      [.read 9 0 (.optInt (some 2)), .read 8 0 (.optInt (some 20))] := by decide +kernel

/-- A dropped dependency never triggers: after the second execution, resource 7 (read by the
first execution only) is changed; task 0 is reused without execution. -/
def c08Pie2 : PieSt := (tdMake stdSem (bodyOf c08Tbl) 51 c08S 0).1.toPie
def c08S3 : Sess := (c08Pie2.setContent 7 (some 99)).newSession

theorem c08_instance_dropped :
    (tdMake stdSem (bodyOf c08Tbl) 12 c08S3 0).2 = .ok 20 ∧
    ∀ t', Ev.executeStart t' ∉
      (tdMake stdSem (bodyOf c08Tbl) 12 c08S3 0).1.trace.drop c08S3.trace.length :=
  C08_dropped_never_triggers stdSem (bodyOf c08Tbl) 10 c08S3 c08Pie2.newSession 0
    (c08S3.store.getOrCreateTaskNode 0).1 0 20
    [.read 9 0 (.optInt (some 2)), .read 8 0 (.optInt (some 20))]
    (Prod.ext rfl (by decide +kernel)) (by decide +kernel) (by decide +kernel)
    (by decide +kernel) (by decide +kernel)
    (by
      intro d hd
      simp only [List.mem_cons, List.not_mem_nil, or_false] at hd
      rcases hd with rfl | rfl
      · show stdSem.rcheck 0 (c08Pie2.newSession.content 9) (.optInt (some 2)) = .ok true
        decide +kernel
      · show stdSem.rcheck 0 (c08Pie2.newSession.content 8) (.optInt (some 20)) = .ok true
        decide +kernel)
    (by
      intro r hr
      obtain ⟨e, he, hk⟩ := (hasKey_iff _ _).mp hr
      simp only [List.mem_cons, List.not_mem_nil, or_false] at he
      rcases he with rfl | rfl
      · cases hk; decide +kernel
      · cases hk; decide +kernel)

/-- The same re-execution in the bottom-up context (`buExec`). -/
def c08B2 : Sess :=
  (buRun stdSem (bodyOf c08Tbl) 50 (buExecSession c08S 0 0) (bodyOf c08Tbl 0)).1

theorem c08_instance_bu :
    (buExec stdSem (bodyOf c08Tbl) 51 c08S 0 0).1.store.depsFrom 0 =
      mergeAll [] (buOps stdSem (bodyOf c08Tbl) 50 (buExecSession c08S 0 0) (bodyOf c08Tbl 0)) :=
  (C08_recorded_eq_performed_bu stdSem (bodyOf c08Tbl) 50 c08S c08B2 0 0 20 c08_wf
    (by decide +kernel) (Prod.ext rfl (by decide +kernel))).2

example : (buExec stdSem (bodyOf c08Tbl) 51 c08S 0 0).1.store.depsFrom 0 =
      [.read 9 0 (.optInt (some 2)), .read 8 0 (.optInt (some 20))] ∧
    buOps stdSem (bodyOf c08Tbl) 50 (buExecSession c08S 0 0) (bodyOf c08Tbl 0) =
      [.read 9 0 (.optInt (some 2)), .read 8 0 (.optInt (some 20))] := by decide +kernel

/-- K2: one dependency per target — the first `read`, the last `require`. -/
def c08K2 : Sess :=
  (sessionRequire stdSem (bodyOf c08Tbl) 100
    (PieSt.newSession { fs := [(9, 1), (7, 10), (8, 20)] }) 1).1

example : c08K2.store.depsFrom 0 =
      [.read 9 0 (.optInt (some 1)), .require 0 3 (.bool false)] ∧
    mergeAll [] [.read 9 0 (.optInt (some 1)), .read 9 1 (.optInt (some 1)),
        .require 0 0 (.int 10), .require 0 3 (.bool false)] =
      [.read 9 0 (.optInt (some 1)), .require 0 3 (.bool false)] := by decide +kernel

end PieModel
