import PieModel.Build.Pie
namespace PieModel
theorem C06_placeholder : True := trivial
end PieModel
