/-
Property C06 (local detection logic): a write to a resource that already has a recorded writer
aborts the build with "overlapping write" — in `write` before the resource is modified, in
`written_to` after (the caller has modified it already).  Exact characterisation of when the
overlap abort happens.

Unfolding work: `PieModel/Build/Proofs/{SessionLemmas,ValidateWrite}.lean`.
-/
import PieModel.Build.Proofs.ValidateWrite
import PieModel.Build.Proofs.DecEq
import PieModel.Build.StdSem
import PieModel.Build.Script

namespace PieModel
open Sess SessL

variable (sem : Sem)

/-- `write` to a resource with a recorded writer `w` (any `w`, the writing task itself included):
abort `overlap`; the resource state is untouched, the store is the store after node lookup, only
`write_start` has been reported, no dependency added. -/
theorem C06_write_overlap_abort (s : Sess) (r c cur w : Nat) (v : Option Int) (st : Store) (dst : Nat)
    (hcur : s.cur = some cur) (hn : s.store.getOrCreateResNode r = (st, dst))
    (hw : st.taskWritingTo dst = some w) :
    ∃ s₁, doWrite sem s r c v = (s₁, .abort .overlap) ∧
      s₁.fs = s.fs ∧ s₁.store = st ∧ s₁.trace = s.trace ++ [.writeStart r c] ∧
      s₁.errors = s.errors ∧ s₁.cur = s.cur := by
  have hv : validateWrite st cur dst = some .overlap :=
    (validateWrite_overlap_iff st cur dst).mpr (by simp [hw])
  exact ⟨_, doWrite_validate_abort sem s r c cur v st dst _ hcur hn hv, rfl, rfl, rfl, rfl, rfl⟩

/-- The same as one equation. -/
theorem C06_write_overlap_eq (s : Sess) (r c cur w : Nat) (v : Option Int) (st : Store) (dst : Nat)
    (hcur : s.cur = some cur) (hn : s.store.getOrCreateResNode r = (st, dst))
    (hw : st.taskWritingTo dst = some w) :
    doWrite sem s r c v =
      ({ s with store := st, trace := s.trace ++ [.writeStart r c] }, .abort .overlap) :=
  doWrite_validate_abort sem s r c cur v st dst _ hcur hn
    ((validateWrite_overlap_iff st cur dst).mpr (by simp [hw]))

/-- `written_to` on a resource with a recorded writer: same verdict; here the content is already
modified when the declaration is validated. -/
theorem C06_wrote_overlap_abort (s : Sess) (r c cur w : Nat) (v : Option Int) (st : Store) (dst : Nat)
    (hcur : s.cur = some cur) (hn : s.store.getOrCreateResNode r = (st, dst))
    (hw : st.taskWritingTo dst = some w) :
    ∃ s₁, doWrote sem s r c v = (s₁, .abort .overlap) ∧
      s₁.fs = (s.setContent r v).fs ∧ s₁.store = st ∧ s₁.trace = s.trace ++ [.writeStart r c] := by
  have hv : validateWrite st cur dst = some .overlap :=
    (validateWrite_overlap_iff st cur dst).mpr (by simp [hw])
  exact ⟨_, doWrote_validate_abort sem s r c cur v st dst _ hcur hn hv, rfl, by simp, rfl⟩

/-- Exactly when: inside a task, and the resource has a recorded writer. -/
theorem C06_overlap_iff (s : Sess) (r c : Nat) (v : Option Int) :
    (doWrite sem s r c v).2 = .abort .overlap ↔
      s.cur.isSome ∧
      ((s.store.getOrCreateResNode r).1.taskWritingTo (s.store.getOrCreateResNode r).2).isSome := by
  cases hcur : s.cur with
  | none => simp [doWrite_no_cur sem s r c v hcur]
  | some cur =>
    rcases hp : s.store.getOrCreateResNode r with ⟨st, dst⟩
    rw [doWrite_abort_iff sem s r c cur v st dst .overlap hcur hp, validateWrite_overlap_iff]
    simp

theorem C06_wrote_overlap_iff (s : Sess) (r c : Nat) (v : Option Int) :
    (doWrote sem s r c v).2 = .abort .overlap ↔
      s.cur.isSome ∧
      ((s.store.getOrCreateResNode r).1.taskWritingTo (s.store.getOrCreateResNode r).2).isSome := by
  cases hcur : s.cur with
  | none => simp [doWrote_no_cur sem s r c v hcur]
  | some cur =>
    rcases hp : s.store.getOrCreateResNode r with ⟨st, dst⟩
    rw [doWrote_abort_iff sem s r c cur v st dst .overlap hcur hp, validateWrite_overlap_iff]
    simp

/-- The overlap test comes first: with a recorded writer the verdict is `overlap` whatever the
readers are (never `hidden`). -/
theorem C06_overlap_before_hidden (st : Store) (src dst w : Nat) (hw : st.taskWritingTo dst = some w) :
    validateWrite st src dst = some .overlap := by
  simp [validateWrite, hw]

/-- Conversely, without a recorded writer there is no overlap abort. -/
theorem C06_no_writer_no_overlap (s : Sess) (r c : Nat) (v : Option Int) (st : Store) (dst : Nat)
    (hn : s.store.getOrCreateResNode r = (st, dst))
    (hw : st.taskWritingTo dst = none) :
    (doWrite sem s r c v).2 ≠ .abort .overlap := by
  rw [Ne, C06_overlap_iff, hn]
  simp [hw]

/-! ### non-vacuity -/

open DecEqAux

/-- 0 writes resource 8; 1 requires 0 and then writes 8 itself; 2 writes 8 twice;
3 requires 0 and declares a write to 8 after the fact. -/
def c06Tbl : List (Nat × Script) :=
  [(0, .write 8 0 (some (.const 1)) (.ret (.const 0))),
   (1, .req 0 0 (.write 8 0 (some (.const 2)) (.ret (.const 0)))),
   (2, .write 8 0 (some (.const 1)) (.write 8 0 (some (.const 2)) (.ret (.const 0)))),
   (3, .req 0 0 (.wrote 8 0 (some (.const 2)) (.ret (.const 0))))]

def c06Run (t : Nat) := sessionRequire stdSem (bodyOf c06Tbl) 100 (PieSt.newSession {}) t

/-- Second writer: abort `overlap`, last event `write_start`, the resource still holds the first
writer's value. -/
example : (c06Run 1).2 = .abort .overlap ∧ (c06Run 1).1.fs = [(8, 1)] ∧
    (c06Run 1).1.trace.getLast? = some (.writeStart 8 0) := by decide +kernel

/-- The recorded writer may be the writing task itself: writing one resource twice aborts. -/
example : (c06Run 2).2 = .abort .overlap ∧ (c06Run 2).1.fs = [(8, 1)] := by decide +kernel

/-- `written_to`: same verdict, but the second value is already in place. -/
example : (c06Run 3).2 = .abort .overlap ∧ (c06Run 3).1.fs = [(8, 2)] := by decide +kernel

/-- A single writer is fine. -/
example : (c06Run 0).2 = .ok 0 ∧ (c06Run 0).1.fs = [(8, 1)] := by decide +kernel

end PieModel
