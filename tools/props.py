"""Per-property configuration: streams/generators, projection compared between model and
implementation, executable oracle, Lean targets and the theorems that must be audited."""
import random
from vcommon import Case
import gen_graph, oracle_graph


# ----------------------------------------------------------------------------- graph (C10, C11)
def gen_graph_cases(rng, tier, seed):
    n = 250 if tier == "quick" else 6000
    cases, agg = [], {}
    for i in range(n):
        r = random.Random(rng.getrandbits(48))
        ops, st = gen_graph.gen_case(r, max_nodes=r.choice([4, 6, 8, 10, 12]), n_ops=r.choice([12, 25, 40]))
        cases.append(Case("graph", f"g{seed}-{i}", ops))
        for k, v in st.items():
            agg[k] = agg.get(k, 0) + v
    # exhaustive small scope: all sequences over 3 nodes; quick: length 2, thorough: length 3 (+ 2 nodes length 4)
    ex = 0
    scopes = [(3, 2)] if tier == "quick" else [(3, 3), (2, 4)]
    for (nn, no) in scopes:
        for j, ops in enumerate(gen_graph.exhaustive_cases(nn, no)):
            cases.append(Case("graph", f"x{nn}-{no}-{j}", ["mode sparse"] + [x for o in ops[nn:] for x in (o, "dump")] if False else ops))
            ex += 1
    agg["exhaustive_small_scope_cases"] = ex
    agg["exhaustive_scopes"] = [f"{a} nodes, all op sequences of length {b}" for a, b in scopes]
    agg["random_cases"] = n
    return cases, agg


def proj_graph_c10(case, lines):
    """What C10 talks about: results of insertions/removals, ranks, the edge *set*."""
    out = []
    for l in lines:
        t = l.split(" ")
        if t[0] == "op":
            if " -> some [" in l:  # remove_outgoing_edges_of_node: C10 sees the removed *set*
                head, lst = l.rsplit("[", 1)
                l = head + "[" + ",".join(sorted(lst[:-1].split(","))) + "]"
            out.append(l)
        elif t[0] == "n":
            f = dict(kv.split("=", 1) for kv in t[2:])
            outs = sorted(x for x in f["outn"][1:-1].split(",") if x)
            out.append(f"n {t[1]} rank={f['rank']} out={outs}")
        elif t[0] in ("ce", "iu", "len") or not l.startswith(("ct", "ed", "tc", "du", "ds")):
            out.append(l)
    return out


def graph_nontrivial(case, io):
    return sum(1 for l in case.body if l.startswith("addedge")) >= 2


GRAPH_RULE = ("random op sequences over <=12 live nodes (biased to rank-reordering insertions, cycle-closing insertions, "
              "re-insertion of existing edges, operations on removed nodes) plus every op sequence of a small scope; "
              "a case is non-trivial if it contains >=2 add_edge operations; distinct = distinct op text")

PROPS = {
    "C10": dict(
        kinds=["graph"], generate=gen_graph_cases, proj=proj_graph_c10, proj_name="C10: op results, ranks, edge set",
        oracle=lambda c, io: oracle_graph.check(io, "C10"), nontrivial=graph_nontrivial, rule=GRAPH_RULE,
        lean_targets=["PieModel.Props.C10"], theorems=["PieModel.C10_placeholder"],
    ),
    "C11": dict(
        kinds=["graph"], generate=gen_graph_cases, proj=lambda c, l: l, proj_name="C11: complete query dump after every op",
        oracle=lambda c, io: oracle_graph.check(io, "C11"), nontrivial=graph_nontrivial, rule=GRAPH_RULE,
        lean_targets=["PieModel.Props.C11"], theorems=["PieModel.C11_placeholder"],
    ),
}
