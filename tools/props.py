"""Per-property configuration: streams/generators, projection compared between model and
implementation, executable oracle, Lean targets and the theorems that must be audited."""
import os, random
from vcommon import Case
import vcommon as V
import gen_graph, oracle_graph


# ----------------------------------------------------------------------------- graph (C10, C11)
def gen_graph_cases(rng, tier, seed):
    n = 600 * V.depth_factor() if tier == "quick" else 15000
    cases, agg = [], {}
    for i in range(n):
        r = random.Random(rng.getrandbits(48))
        ops, st = gen_graph.gen_case(r, max_nodes=r.choice([4, 6, 8, 10, 12]), n_ops=r.choice([12, 25, 40]))
        cases.append(Case("graph", f"g{seed}-{i}", ops))
        for k, v in st.items():
            agg[k] = agg.get(k, 0) + v
    # exhaustive small scope: all sequences over 3 nodes; quick: length 2, thorough: length 3 (+ 2 nodes length 4)
    ex = 0
    scopes = [(3, 2)] if tier == "quick" else [(3, 3), (2, 4)]
    for (nn, no) in scopes:
        for j, ops in enumerate(gen_graph.exhaustive_cases(nn, no)):
            cases.append(Case("graph", f"x{nn}-{no}-{j}", ["mode sparse"] + [x for o in ops[nn:] for x in (o, "dump")] if False else ops))
            ex += 1
    agg["exhaustive_small_scope_cases"] = ex
    agg["exhaustive_scopes"] = [f"{a} nodes, all op sequences of length {b}" for a, b in scopes]
    agg["random_cases"] = n
    return cases, agg


def proj_graph_c10(case, lines):
    """What C10 talks about: results of insertions/removals, ranks, the edge *set*."""
    out = []
    for l in lines:
        t = l.split(" ")
        if t[0] == "op":
            if " -> some [" in l:  # remove_outgoing_edges_of_node: C10 sees the removed *set*
                head, lst = l.rsplit("[", 1)
                l = head + "[" + ",".join(sorted(lst[:-1].split(","))) + "]"
            out.append(l)
        elif t[0] == "n":
            f = dict(kv.split("=", 1) for kv in t[2:])
            outs = sorted(x for x in f["outn"][1:-1].split(",") if x)
            out.append(f"n {t[1]} rank={f['rank']} out={outs}")
        elif t[0] in ("ce", "iu", "len") or not l.startswith(("ct", "ed", "tc", "du", "ds")):
            out.append(l)
    return out


def graph_nontrivial(case, io):
    return sum(1 for l in case.body if l.startswith("addedge")) >= 2


GRAPH_RULE = ("random op sequences over <=12 live nodes (biased to rank-reordering insertions, cycle-closing insertions, "
              "re-insertion of existing edges, operations on removed nodes) plus every op sequence of a small scope; "
              "a case is non-trivial if it contains >=2 add_edge operations; distinct = distinct op text")

PROPS = {
    "C10": dict(
        kinds=["graph"], generate=gen_graph_cases, proj=proj_graph_c10, proj_name="C10: op results, ranks, edge set",
        oracle=lambda c, io: oracle_graph.check(io, "C10"), nontrivial=graph_nontrivial, rule=GRAPH_RULE,
        lean_targets=["PieModel.Props.C10"], theorems=["PieModel.C10_inv_step","PieModel.C10_inv_reachable","PieModel.C10_ranks_bijection","PieModel.C10_edges_upward","PieModel.C10_acyclic","PieModel.C10_addEdge_cycle_iff","PieModel.C10_addEdge_rejected_unchanged","PieModel.C10_addEdge_missing_iff"],
    ),
    "C11": dict(
        kinds=["graph"], generate=gen_graph_cases, proj=lambda c, l: l, proj_name="C11: complete query dump after every op",
        oracle=lambda c, io: oracle_graph.check(io, "C11"), nontrivial=graph_nontrivial, rule=GRAPH_RULE,
        lean_targets=["PieModel.Props.C11"], theorems=["PieModel.C11_placeholder"],
    ),
}


# ----------------------------------------------------------------------------- build properties
import gen_build as GB, oracle_build as OB


def build_stream(gens, nq, nt, exhaustive=False):
    """gens: list of (name, generator(rng) -> body | (body, meta), weight)"""
    def generate(rng, tier, seed):
        cases, agg = generate0(rng, tier, seed)
        if exhaustive and tier == "thorough":
            k = 0
            for body in GB.exhaustive_small():
                cases.append(Case("build", f"xs-{k}", body, dict(stream="xs"))); k += 1
            agg["exhaustive_small_scope_cases"] = k
            agg["exhaustive_scopes"] = ["3 tasks (leaf / leaf-or-over-leaf / over both), sources S,W, generated G, checkers {Equals,Always,Parity}: "
                                        "every program x every history of an initial build and two rounds of one change, each top-down or bottom-up"]
        return cases, agg

    def generate0(rng, tier, seed):
        n = int(os.environ["VERIF_SOAK_N"]) if tier == "soak" else (nq * V.depth_factor() if tier == "quick" else nt)
        cases, agg = [], {}
        names = [g[0] for g in gens for _ in range(g[2])]
        fns = {g[0]: g[1] for g in gens}
        for i in range(n):
            name = names[i % len(names)]
            r = random.Random(rng.getrandbits(48))
            res = fns[name](r)
            body, meta = res if isinstance(res, tuple) else (res, {})
            cases.append(Case("build", f"{name}{seed}-{i}", body, dict(meta, stream=name)))
            agg["cases_" + name] = agg.get("cases_" + name, 0) + 1
        return cases, agg
    return generate


def proj_lines(prefixes):
    def proj(case, lines):
        return [l for l in lines if l.startswith(prefixes)]
    return proj


def build_stats(case, io):
    return any(l.startswith("ev execute_start") for l in io)


BUILD_RULE = ("scripted task programs (3-8 tasks, value-dependent requires/reads/writes, all built-in and harness checkers) with "
              "histories of sessions and external changes, generated from VERIF_SEED; a case is non-trivial if at least one task "
              "executed on the real crates; distinct = distinct case text")

ALL_BUILD = ("op ", "ev ", "tl ", "out ", "abort ", "done", "skipped", "errors ", "fs ", "st ", "cl ", "known ", "bad-op", "et ", "composite")


import re as _re


def pat_failing_stamper(case, io):
    """K5: some task reads with a checker whose *stamp* can fail (harness checker ids 30-33)"""
    return any(_re.search(r"\bread \d+ 3[0-3]\b", l) for l in case.body if l.startswith("task "))


def pat_multi_dep_one_target(case, io):
    """K2: some task performs two dependency operations on one target that differ in kind or checker"""
    for l in case.body:
        if not l.startswith("task "): continue
        t = l.split(" ")
        seen = {}
        for i, w in enumerate(t):
            if w in ("req", "read", "write", "wrote") and i + 2 < len(t) and t[i + 1].lstrip("-").isdigit() and t[i + 2].isdigit():
                key = ("T" if w == "req" else "R", t[i + 1])
                kind = "req" if w == "req" else ("read" if w == "read" else "write")
                if key in seen and (kind, t[i + 2]) not in seen[key]: return True
                seen.setdefault(key, set()).add((kind, t[i + 2]))
    return False


def pat_after_abort(case, io):
    """K6/K7: an earlier build of the history aborted"""
    return any(l.startswith("abort ") for l in io)


def pat_partial_topdown_before_bu(case, io):
    """K1: after some session, an external change, then a session that only requires top-down (no bottom-up build),
    then later a bottom-up build"""
    seen_session = changed = partial = False
    in_sess, has_bu, has_req = False, False, False
    for l in case.body:
        w = l.split(" ")[0]
        if w == "session": in_sess, has_bu, has_req = True, False, False
        elif w == "endsession":
            if in_sess and has_req and not has_bu and seen_session and changed: partial = True
            if in_sess and has_bu and partial: return True
            seen_session, in_sess = True, False
            if has_bu: changed = False
        elif w in ("set", "del") and seen_session: changed = True
        elif w == "bu": has_bu = True
        elif w in ("req", "reqknown"): has_req = True
    return False


def pat_aborted_bu_and_failing_checker(case, io):
    """K8: the history contains a bottom-up build that aborted, and some task reads with a checker whose check can fail
    (harness ids 10-29)"""
    if not any(_re.search(r"\b(read|write|wrote) \d+ [12]\d\b", l) for l in case.body if l.startswith("task ")):
        return False
    in_bu = False
    for l in io:
        if l.startswith("op bu"): in_bu = True
        elif l.startswith("op "): in_bu = False
        elif in_bu and l.startswith("abort "): return True
    return False


def pat_hidden_after_abort(case, io):
    """K9: a hidden-dependency abort after an earlier abort in the history"""
    seen = False
    for l in io:
        if l.startswith("abort "):
            if seen and l == "abort hidden": return True
            seen = True
    return False


def known_any(*matchers):
    def km(case, io, mo):
        for m in matchers:
            r = m(case, io, mo)
            if r: return r
        return None
    return km


def known_if_model_agrees(fid, oracle, pattern=None):
    """pattern of a known finding: the oracle fails on the implementation AND on the model's own output for the same
    case (the finding is a property of the algorithm as modelled, not a deviation of the code from the model)."""
    def km(case, io, mo):
        fi, fm = oracle(case, io), oracle(case, mo)
        # every failure observed on the implementation must be a failure of the model on the same case, message for
        # message: a different clause / different values failing is not the recorded finding
        return fid if (fi and fm and set(fi) <= set(fm) and (pattern is None or pattern(case, io))) else None
    return km


def mk(prop, gens, nq, nt, proj, oracle, theorems, **kw):
    return dict(kinds=["build"], generate=build_stream(gens, nq, nt, exhaustive=kw.pop("exhaustive", False)), proj=proj, oracle=oracle, nontrivial=build_stats,
                rule=BUILD_RULE, lean_targets=[f"PieModel.Props.{prop}"], theorems=theorems, **kw)


# streams: name -> generator. Every property runs its own focus streams with a high weight AND the other streams its
# oracle is valid on (the property must hold there on the unchanged tree), so that a change whose trigger lives in
# another corner (after an abort, under a failing checker, in a bottom-up build, ...) is still seen by this property.
S = dict(
    td=GB.case_td, tdx=lambda r: (GB.case_td(r, exact=True), dict(exact=True)), bu=GB.case_bu, bud=GB.case_bu_dense, buc=GB.case_bu_chain, buw=GB.case_bu_wide, tdr=GB.case_td_relay, bur=GB.case_bu_relay,
    pan=GB.case_panic, pano=GB.case_panic_only, panr=GB.case_panic_recover, ssr=GB.case_same_session_retry, awr=GB.case_aborted_writer, panrtd=lambda r: GB.case_panic_recover(r, bu_prob=0.0), fail=GB.case_failing_checker, buf=GB.case_bu_fail, hid=GB.case_hidden, hidp=GB.case_hidden_polluted,
    ovl=GB.case_overlap, cyc=GB.case_cycle, rol=GB.case_roles, ero=GB.case_erosion, k1=GB.case_partial_td_then_bu,
    k2=GB.case_multichecker,
    # top-down-only histories (C01's quantifier: sessions of requires interleaved with external changes)
    panotd=lambda r: GB.case_panic_only(r, bu_prob=0.0), failtd=lambda r: GB.case_failing_checker(r, bu_prob=0.0))


def st(**w):
    return [(k, S[k], v) for k, v in w.items()]


WELLFORMED_STREAMS = ("td", "tdx", "bu", "bud", "buc", "xs", "tdr", "bur", "buw")


def c01_oracle(c, io):
    # "the incremental build aborted although the from-scratch build returns" is claimed only for well-formed programs
    # (C20/C19 own that clause elsewhere)
    f = OB.c01(c, io)
    if c.meta.get("stream") not in WELLFORMED_STREAMS + (None,):
        f = [x for x in f if "incremental build aborted/skipped" not in x and "from-scratch build aborts" not in x]
    return f


PROPS.update({
    "C01": mk("C01", st(td=4, tdx=2, bu=1, buc=1, failtd=2, panotd=2, panrtd=1, tdr=1, bur=1, cyc=1, rol=1), 3000, 30000,
              proj_lines(("op ", "out ", "abort ", "done", "skipped", "fs ", "cl ", "known ", "bad-op")), c01_oracle, [],
              proj_name="C01: returned outputs, abort kinds, resource contents, reference builds",
              known_match=known_any(known_if_model_agrees("K5", c01_oracle, pat_failing_stamper),
                                    known_if_model_agrees("K8", c01_oracle, pat_aborted_bu_and_failing_checker)), exhaustive=True),
    "C02": mk("C02", st(td=3, tdx=3, buc=1, pan=2, pano=1, panr=2, fail=1, bu=1, hid=1, ovl=1, cyc=1, rol=1, tdr=1), 3000, 30000,
              proj_lines(("op ", "ev execute_start", "ev check_", "out ", "abort ", "cl exec", "bad-op")),
              lambda c, io: OB.c02(c, io, exact=c.meta.get("exact", False),
                                    idem_sessions=c.meta.get("stream") in WELLFORMED_STREAMS + ("pano", "panr")), [],
              proj_name="C02: execute_start and check events with verdicts per session", exhaustive=True),
    "C03": mk("C03", st(bu=4, bud=3, buc=3, buf=2, k1=1, bur=1, buw=1), 3000, 30000,
              proj_lines(("op ", "ev execute_", "ev schedule_task", "out ", "abort ", "done", "fs ", "cl ", "known ", "bad-op")), OB.c03, [],
              proj_name="C03: executions, scheduling, outputs, contents", known_match=known_if_model_agrees("K1", OB.c03, pat_partial_topdown_before_bu), exhaustive=True),
    "C04": mk("C04", st(bu=3, bud=3, buc=2, buf=1, pan=1, panr=1, rol=1, ero=1, hid=1, ovl=1, bur=1, buw=3, awr=1), 3000, 30000,
              proj_lines(("op ", "ev execute_", "ev schedule_", "ev check_task_re", "out ", "abort ", "done", "bad-op")), OB.c04, [],
              proj_name="C04: order of execute_start/end, schedule and scheduling-check events", known_match=known_if_model_agrees("K7", OB.c04, pat_after_abort), exhaustive=True),
    "C05": mk("C05", st(hid=4, hidp=1, ero=2, td=1, bu=1, bud=1, pan=1, panr=1, ovl=1, rol=1, tdr=1, bur=1, ssr=1, buw=1, awr=1), 3000, 30000,
              proj_lines(("op ", "out ", "abort ", "done", "skipped", "fs ", "st ", "bad-op")),
              lambda c, io: OB.dump_invariants(c, io, "C05") + OB.abort_content(c, io), [],
              proj_name="C05: abort kinds, contents at abort, store dump",
              known_match=known_if_model_agrees("K4", lambda c, io: OB.dump_invariants(c, io, "C05"))),
    "C06": mk("C06", st(ovl=4, td=1, bu=1, bud=1, hid=1, pan=1, panr=1, rol=1, ero=1, tdr=1, ssr=1, fail=1, buf=1, awr=1), 3000, 30000,
              proj_lines(("op ", "out ", "abort ", "done", "skipped", "fs ", "st ", "bad-op")),
              lambda c, io: OB.dump_invariants(c, io, "C06") + OB.abort_content(c, io) + (
                  [f"well-formed program aborted: {l}" for l in io if l == "abort overlap"] if (c.meta.get("stream") in WELLFORMED_STREAMS or c.meta.get("no_abort_expected")) else []), [],
              proj_name="C06: abort kinds, contents at abort, store dump"),
    "C07": mk("C07", st(cyc=4, pan=1, panr=1, rol=1, td=1, bu=1, bud=1, tdr=1, ssr=1), 3000, 30000,
              proj_lines(("op ", "out ", "abort ", "done", "skipped", "tl ", "st ", "bad-op")), OB.c07, [],
              proj_name="C07: abort kinds, task-side log, store dump"),
    "C08": mk("C08", st(td=3, bu=2, bud=2, buc=1, pan=2, panr=1, k2=2, fail=1, hid=1, ovl=1, cyc=1, rol=1, ero=1, tdr=1, bur=1, ssr=1, awr=1), 3000, 30000,
              proj_lines(("op ", "st ", "abort ", "bad-op")), OB.c08, [],
              proj_name="C08: store dump after every session", known_match=known_if_model_agrees("K2", OB.c08, pat_multi_dep_one_target), exhaustive=True),
    "C09": mk("C09", st(td=3, bu=2, buc=1, fail=2, bud=1, buf=1, pan=1, panr=1, hid=1), 3000, 30000,
              proj_lines(("op ", "ev read_end", "ev write_end", "ev require_end", "ev check_", "abort ", "bad-op")), OB.c09, [],
              proj_name="C09: stamps in *_end events and verdicts of every check event", exhaustive=True),
    "C16": mk("C16", st(td=2, bu=2, bud=2, buc=1, hid=1, hidp=1, fail=1, buf=1, pan=1, panr=1, ovl=1, cyc=1, rol=1, ero=1, k1=1, k2=1, tdr=1, bur=1, buw=1, ssr=1, awr=1), 3000, 30000,
              proj_lines(ALL_BUILD), lambda c, io: [], [], proj_name="C16: complete canonical event stream and outputs",
              replays=dict(quick=2, thorough=7)),
    "C17": mk("C17", st(td=2, bu=2, buc=1, pan=2, panr=1, fail=2, bud=1, buf=1, hid=1, ovl=1, cyc=1, rol=1, buw=1, ssr=1), 3000, 30000,
              proj_lines(("op ", "ev ", "tl ", "et ", "composite", "out ", "abort ", "done", "bad-op")), OB.c17, [],
              proj_name="C17: complete event stream, task-side log, EventTracker contents", exhaustive=True),
    "C18": mk("C18", st(fail=4, buf=2, td=1, bu=1), 3000, 30000,
              proj_lines(("op ", "errors ", "ev execute_start", "ev schedule_task", "out ", "abort ", "done", "bad-op")), OB.c18, [],
              proj_name="C18: dependency_check_errors, executions, scheduling, outputs"),
    "C19": mk("C19", st(pan=3, pano=1, panr=2, ssr=1, awr=1), 3000, 30000,
              proj_lines(("op ", "out ", "abort ", "done", "skipped", "fs ", "cl ", "bad-op")), OB.c19, [],
              proj_name="C19: outcomes of all sessions after an abort", known_match=known_any(known_if_model_agrees("K9b", OB.c19, pat_hidden_after_abort),
                                    known_if_model_agrees("K6", OB.c19, pat_after_abort))),
    "C20": mk("C20", st(rol=3, td=1, bu=1, bud=1, pan=4, pano=2, panr=3, hidp=1, tdr=1, bur=1, ssr=1, buw=2, awr=3), 3000, 30000,
              proj_lines(("op ", "out ", "abort ", "done", "skipped", "cl ", "bad-op")),
              lambda c, io: OB.c20(c, io) + ([f"well-formed program aborted: {l}" for l in io if l in ("abort overlap", "abort hidden", "abort cyclic")]
                                             if c.meta.get("stream") in WELLFORMED_STREAMS else []), [],
              proj_name="C20: abort kinds vs from-scratch build of all known tasks",
              known_match=known_any(known_if_model_agrees("K9", OB.c20, pat_hidden_after_abort),
                                    known_if_model_agrees("K3", OB.c20))),
})


# ----------------------------------------------------------------------------- library properties
import gen_lib as GL


def lib_stream(kind, fixed, gen, nq, nt):
    def generate(rng, tier, seed):
        cases = [Case(kind, f"fixed{i}", b) for i, b in enumerate(fixed)]
        n = int(os.environ["VERIF_SOAK_N"]) if tier == "soak" else (nq * V.depth_factor() if tier == "quick" else nt)
        for i in range(n):
            cases.append(Case(kind, f"{kind}-{seed}-{i}", gen(random.Random(rng.getrandbits(48)))))
        return cases, dict(fixed_cases=len(fixed), random_cases=n)
    return generate


def mklib(prop, kind, fixed, gen, nq, nt, oracle, rule, **kw):
    return dict(kinds=[kind], generate=lib_stream(kind, fixed, gen, nq, nt), proj=lambda c, l: l, oracle=oracle,
                nontrivial=lambda c, io: len(c.body) >= 3, rule=rule, lean_targets=[f"PieModel.Props.{prop}"], theorems=[], **kw)


PROPS.update({
    "C12": mklib("C12", "lib12", [GL.lib12_all()], lambda r: [f"{r.choice(['chk', 'chk', 'chk2', 'chk3', 'chk4'])} {r.randint(0, 4)} {r.randint(-50, 50)} {r.randint(-50, 50)}" for _ in range(30)], 20, 2000,
                 GL.oracle12, "all pairs over a 6-element Result<i64,i64> domain x 5 checkers (exhaustive for that domain), the same for Result<(),i64>, Result<bool,()> and Result<String,()> (zero-sized payloads / errors, niche layouts) + random pairs; also through OutputCheckerObj",
                 proj_name="C12: stamps and verdicts of the five built-in output checkers"),
    "C14": mklib("C14", "lib14", [], GL.gen14, 200, 20000, GL.oracle14,
                 "random sequences of insert/remove/entry/get operations through writers and through Pie::resource_state_mut over two key types, and typed state accesses (get/get_mut/set/set_boxed/get_or_set_default with matching and non-matching types) over three resource types",
                 proj_name="C14: results of every map / resource-state operation"),
    "C15": mklib("C15", "lib15", [], GL.gen15, 150, 10000, GL.oracle15,
                 "requires of same-valued tasks of five task types (two newtypes with identical Debug/Hash, Box/Rc/Arc wrappers) reading same-valued resources of two key types; cross-type key equality queries",
                 proj_name="C15: outputs, executions, node counts, key equality"),
})
# C17: add the library stream (EventTracker, helpers, composite) to the build stream
_c17b = PROPS["C17"]
_g17 = lib_stream("lib17", [GL.lib17_exhaustive()], GL.gen17, 80, 5000)


def _gen17(rng, tier, seed, _b=_c17b["generate"]):
    c1, s1 = _b(rng, tier, seed)
    c2, s2 = _g17(rng, tier, seed)
    return c1 + c2, dict(s1, **{"lib17_" + k: v for k, v in s2.items()})


PROPS["C17"] = dict(_c17b, kinds=["build", "lib17"], generate=_gen17,
                    proj=lambda c, l, _p=_c17b["proj"]: (l if c.kind == "lib17" else _p(c, l)),
                    oracle=lambda c, io: (GL.oracle17(c, io) if c.kind == "lib17" else OB.c17(c, io)),
                    lean_targets=["PieModel.Props.C17"])

PROPS["C13"] = mklib("C13", "lib13", GL.lib13_fixed(), GL.gen13, 150, 6000, GL.oracle13,
                     "operation sequences on real temporary files/directories with explicitly set modification times: files of sizes 0,1,5,8191,8192,8193,65537, "
                     "directories with name sets chosen to collide under concatenation, removal, touch; three checkers x three stamping routes; checks of every earlier stamp",
                     proj_name="C13: stamps (hashes as first-occurrence indices), verdicts, bytes read after stamp_reader, write results")


# C16: add the file-resource stream (real files and directories, all three checkers and stamping routes) to the build
# streams: "resource accesses ... independent of hash seeds, allocation addresses or earlier unrelated instances" also
# covers the file checkers (directory listings, content hashes); every case is replayed in fresh processes.
_c16b = PROPS["C16"]
_g16 = lib_stream("lib13", GL.lib13_fixed(), GL.gen13, 120, 3000)


def _gen16(rng, tier, seed, _b=_c16b["generate"]):
    c1, s1 = _b(rng, tier, seed)
    c2, s2 = _g16(rng, tier, seed)
    return c1 + c2, dict(s1, **{"lib13_" + k: v for k, v in s2.items()})


PROPS["C16"] = dict(_c16b, kinds=["build", "lib13"], generate=_gen16,
                    proj=lambda c, l, _p=_c16b["proj"]: (l if c.kind == "lib13" else _p(c, l)),
                    nontrivial=lambda c, io, _n=_c16b["nontrivial"]: (len(c.body) >= 3 if c.kind == "lib13" else _n(c, io)))

# C18: the built-in file checkers are where checker errors come from in practice (OS errors other than NotFound): add the
# real-file stream, whose oracle demands that such errors are returned by stamp/check and never swallowed
_c18b = PROPS["C18"]
_g18 = lib_stream("lib13", GL.lib13_fixed(), GL.gen13, 100, 3000)


def _gen18(rng, tier, seed, _b=_c18b["generate"]):
    c1, s1 = _b(rng, tier, seed)
    c2, s2 = _g18(rng, tier, seed)
    return c1 + c2, dict(s1, **{"lib13_" + k: v for k, v in s2.items()})


PROPS["C18"] = dict(_c18b, kinds=["build", "lib13"], generate=_gen18,
                    proj=lambda c, l, _p=_c18b["proj"]: (l if c.kind == "lib13" else _p(c, l)),
                    oracle=lambda c, io, _o=_c18b["oracle"]: (GL.oracle13(c, io) if c.kind == "lib13" else _o(c, io)),
                    nontrivial=lambda c, io, _n=_c18b["nontrivial"]: (len(c.body) >= 3 if c.kind == "lib13" else _n(c, io)))

# what is stated but not (yet) proved in Lean, per property: covered only by the correspondence and the oracle
STATED_NOT_PROVED = {
    "C01": ["programs with writes are covered for STATIC roles (C01_full_*: WellFormedBody, WriteExact; mixed histories with bottom-up builds: C01_full_mixed_history under Reflexive, shown necessary by C01_full_mixed_history_false); role-changing programs with writes: no theorem (findings K3/K4)",
            "failing stampers excluded by StampTotal (finding K5)"],
    "C04": ["C04_bu_once needs NoOrphan (no aborted task with leftover dependencies): without it the real code executes a task twice (finding K7)"],
    "C05": ["global clause 'a build that returns leaves every reader dependent on the generator' is false on the real code (finding K4; kernel-checked counterexample C05_history_breaks_noHidden)"],
    "C13": ["OS behaviour (metadata, read_dir order, stale handles) is modelled, not proved", "SHA-256 injectivity is a hypothesis"],
    "C15": ["that the Rust code keys on TypeId (downcast in eq_any) — correspondence only"],
    "C16": ["that the two DFS change sets are the only hash-ordered iterations in the code — code reading + multi-process correspondence"],
    "C19": ["'later builds return from-scratch results' is proved for write-free programs over mixed histories (C19_results_after_abort_mixed, OReflexive) and for static-role programs with writes (C19_full_results_after_abort_mixed, Reflexive); role-changing programs with writes: no theorem; spurious abort after an abort = finding K6; stale output after an aborted bottom-up build with a failing checker = finding K8"],
    "C20": ["role-changing programs: no positive theorem (finding K3)",
            "transitive static roles (C20_trans_*): no diagnosed violation as the FIRST abort of any history, and never after task panics for relay-prefix programs; the unrestricted statement is false (finding K9, kernel-checked)"],
}
for _p, _l in STATED_NOT_PROVED.items():
    PROPS[_p]["stated_not_proved"] = _l
