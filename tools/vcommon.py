"""Shared machinery of the /verif checks: building both sides, running cases, comparing
property-specific projections, shrinking, replay files, evidence files."""
import json, os, subprocess, sys, time, hashlib, random
from concurrent.futures import ThreadPoolExecutor

VERIF = os.path.dirname(os.path.dirname(os.path.abspath(__file__)))
LEAN = os.path.join(VERIF, "lean")
HARNESS = os.path.join(VERIF, "harness")
DRIVER = os.path.join(LEAN, ".lake", "build", "bin", "driver")
HBIN = os.path.join(HARNESS, "target", "release", "pieverif")
ENV = dict(os.environ, CARGO_NET_OFFLINE="true")
JOBS = int(os.environ.get("VERIF_JOBS", "16"))

TRUSTED_BASE = [
    "Lean 4.33.0 kernel (thorough tier: re-checked with leanchecker)",
    "axioms accepted in #print axioms: propext, Classical.choice, Quot.sound (nothing else; no sorry, no native_decide, no bv_decide)",
    "hand-written Lean model /verif/lean/PieModel tied to /repo only by the differential correspondence run of this check (harness /verif/harness, driver /verif/lean/Driver, generators and comparison in /verif/tools)",
    "modelled, not verified: slotmap (fresh keys), hashlink::LinkedHashSet (ordered set), std HashMap/HashSet/BinaryHeap/sort (finite map/set/min-extraction/sorting), u32 ranks as Nat, trait objects/TypeId/downcast, panic=unwind, file system, SHA-256",
]


class Case:
    def __init__(self, kind, cid, body, meta=None):
        self.kind, self.cid, self.body, self.meta = kind, str(cid), list(body), meta or {}

    def text(self):
        return "\n".join([f"case {self.kind} {self.cid}"] + self.body + ["end"]) + "\n"


def sh(cmd, cwd=None, timeout=None):
    p = subprocess.run(cmd, shell=isinstance(cmd, str), cwd=cwd, env=ENV, stdout=subprocess.PIPE,
                       stderr=subprocess.STDOUT, text=True, timeout=timeout)
    return p.returncode, p.stdout


def build_lean(targets):
    """lake build of the given targets (cached .olean files make this seconds)."""
    rc, out = sh(["lake", "build"] + targets, cwd=LEAN)
    return rc == 0, out


def build_harness():
    rc, out = sh(["cargo", "build", "--release", "--offline"], cwd=HARNESS)
    return rc == 0, out


ALLOWED_AXIOMS = {"propext", "Classical.choice", "Quot.sound"}


def audit(prop):
    """Elaborate PieModel/Audit/<prop>.lean (`#print axioms` for every property theorem) and
    parse its output. Returns (ok, [(theorem, [axioms])], log)."""
    path = os.path.join("PieModel", "Audit", f"{prop}.lean")
    if not os.path.exists(os.path.join(LEAN, path)):
        return False, [], f"missing {path}"
    rc, out = sh(["lake", "env", "lean", path], cwd=LEAN)
    thms = []
    import re as _re
    # `#print axioms` wraps long lines: match over the whole output
    for m in _re.finditer(r"'(\S+)' (does not depend on any axioms|depends on axioms: \[([^\]]*)\])", out):
        if m.group(2).startswith("does not"):
            thms.append((m.group(1), []))
        else:
            thms.append((m.group(1), [a.strip() for a in m.group(3).replace("\n", " ").split(",") if a.strip()]))
    ok = rc == 0 and len(thms) > 0 and all(set(a) <= ALLOWED_AXIOMS for _, a in thms)
    return ok, thms, out


def textual_scan():
    """Scan lean/ for forbidden constructs, comments stripped. Returns list of hits."""
    import re
    hits = []
    pat = re.compile(r"\bsorry\b|\badmit\b|^axiom |native_decide|bv_decide|implemented_by|\bunsafe |maxHeartbeats 0", re.M)
    for root, _, files in os.walk(os.path.join(LEAN, "PieModel")):
        for f in files:
            if not f.endswith(".lean"):
                continue
            src = open(os.path.join(root, f)).read()
            # strip block comments (non-nested is enough for our files) and line comments
            src = re.sub(r"/-.*?-/", "", src, flags=re.S)
            src = re.sub(r"--.*", "", src)
            for m in pat.finditer(src):
                hits.append(f"{os.path.join(root, f)}: {m.group(0)}")
    return hits


def parse_output(text):
    res, cur, key = {}, None, None
    for line in text.splitlines():
        if line.startswith("case ") and cur is None:
            t = line.split(" ")
            key, cur = (t[1], t[2]), []
        elif line == "end" and cur is not None:
            res[key] = cur
            cur = None
        elif cur is not None:
            cur.append(line)
    return res


def _run_chunk(args):
    binary, text = args
    p = subprocess.run([binary], input=text, stdout=subprocess.PIPE, stderr=subprocess.PIPE, text=True, env=ENV)
    return p.returncode, p.stdout, p.stderr


def run_cases(binary, cases, jobs=None):
    """Run the cases through `binary` (harness or driver), in parallel chunks.
    Returns dict (kind,id) -> output lines. A crashed chunk is re-run case by case."""
    jobs = jobs or JOBS
    if not cases:
        return {}
    n = max(1, min(jobs, len(cases)))
    chunks = [cases[i::n] for i in range(n)]
    out = {}
    with ThreadPoolExecutor(max_workers=n) as ex:
        results = list(ex.map(_run_chunk, [(binary, "".join(c.text() for c in ch)) for ch in chunks]))
    for ch, (rc, so, se) in zip(chunks, results):
        got = parse_output(so)
        if rc != 0 or len(got) != len(ch):
            for c in ch:  # isolate the crashing case
                rc1, so1, se1 = _run_chunk((binary, c.text()))
                g1 = parse_output(so1)
                out[(c.kind, c.cid)] = g1.get((c.kind, c.cid), [f"process-crash rc={rc1} {se1.strip()[:200]}"])
        else:
            out.update(got)
    return out


def first_diff(a, b):
    for i, (x, y) in enumerate(zip(a, b)):
        if x != y:
            return i, x, y
    if len(a) != len(b):
        i = min(len(a), len(b))
        return i, (a[i] if i < len(a) else "<end>"), (b[i] if i < len(b) else "<end>")
    return None


def ddmin(body, pred, max_tests=400, deadline=None):
    """Delta debugging on the lines of a case body: smallest sub-list (found greedily) for which
    `pred(lines)` is still true."""
    tests = 0
    n = 2
    cur = list(body)
    import time as _time
    while len(cur) >= 2 and tests < max_tests and (deadline is None or _time.time() < deadline):
        size = max(1, len(cur) // n)
        reduced = False
        for i in range(0, len(cur), size):
            cand = cur[:i] + cur[i + size:]
            tests += 1
            if cand and pred(cand):
                cur, n, reduced = cand, max(n - 1, 2), True
                break
            if tests >= max_tests or (deadline is not None and _time.time() >= deadline):
                break
        if not reduced:
            if size == 1:
                break
            n = min(len(cur), n * 2)
    return cur


def write_json(path, obj):
    os.makedirs(os.path.dirname(path), exist_ok=True)
    with open(path, "w") as f:
        json.dump(obj, f, indent=1)
        f.write("\n")


def load_known_findings():
    p = os.path.join(VERIF, "known_findings.json")
    if not os.path.exists(p):
        return []
    return json.load(open(p))["findings"]


# ----------------------------------------------------------------------------- adaptive depth
def repo_source_hash():
    """sha256 over the library sources of /repo's working tree (what the harness is rebuilt from)"""
    import hashlib
    h = hashlib.sha256()
    root = os.environ.get("VERIF_REPO", "/repo")
    files = []
    for sub in ("pie/src", "graph/src", "pie/Cargo.toml", "graph/Cargo.toml"):
        pth = os.path.join(root, sub)
        if os.path.isfile(pth): files.append(pth)
        for r, _, fs in os.walk(pth):
            files += [os.path.join(r, f) for f in fs]
    for f in sorted(files):
        h.update(os.path.relpath(f, root).encode()); h.update(b"\0")
        with open(f, "rb") as fh: h.update(fh.read())
        h.update(b"\0")
    return h.hexdigest()


def depth_factor():
    """1 on the tree the framework was last calibrated on (tools/pinned.json); 4 when the library sources differ from it:
    a changed tree is explored more deeply by the same generators (more cases, same streams, same oracles)."""
    if os.environ.get("VERIF_FORCE_DEPTH"):          # calibration runs on the unchanged tree at the depth a changed tree gets
        return int(os.environ["VERIF_FORCE_DEPTH"])
    try:
        pinned = json.load(open(os.path.join(VERIF, "tools", "pinned.json")))["repo_source_hash"]
    except Exception:
        return 1
    return 1 if repo_source_hash() == pinned else int(os.environ.get("VERIF_CHANGED_FACTOR", "4"))
