#!/usr/bin/env python3
"""coverage.py [quick|thorough]: which lines of /repo's library code do the correspondence streams execute?

Builds the harness with `-C instrument-coverage` (nightly toolchain's llvm-tools, offline) into a scratch target
directory outside /verif and /repo, runs the corpus + generated cases of EVERY property through it, and writes
/verif/coverage/report.json: per source file the executed/total line counts and the list of never-executed lines
(non-test code only).  This measures the reach of the tie between model and code: a line of a modelled function
that no generated case executes is behaviour the correspondence does not see.  It is a measurement, not a check:
it never prints VIOLATION."""
import glob, json, os, random, re, shutil, subprocess, sys, tempfile

sys.path.insert(0, os.path.dirname(os.path.abspath(__file__)))
import vcommon as V
import props as P
import check as C

TOOLS = "/root/.rustup/toolchains/nightly-x86_64-unknown-linux-gnu/lib/rustlib/x86_64-unknown-linux-gnu/bin"
TARGET = os.environ.get("VERIF_COVTARGET", "/work/covtarget")


def main():
    tier = sys.argv[1] if len(sys.argv) > 1 else "quick"
    seed = int(os.environ.get("VERIF_SEED", "1"))
    env = dict(V.ENV, RUSTFLAGS="-C instrument-coverage")
    p = subprocess.run(["cargo", "+nightly", "build", "--release", "--offline", "--target-dir", TARGET], cwd=V.HARNESS, env=env,
                       stdout=subprocess.PIPE, stderr=subprocess.STDOUT, text=True)
    if p.returncode != 0:
        print(p.stdout[-3000:]); sys.exit(2)
    hbin = os.path.join(TARGET, "release", "pieverif")
    prof = tempfile.mkdtemp(prefix="pieverif-prof-", dir=os.path.dirname(TARGET))
    V.ENV["LLVM_PROFILE_FILE"] = os.path.join(prof, "p-%p-%m.profraw")
    per_prop = {}
    for prop in sorted(P.PROPS):
        cfg = P.PROPS[prop]
        rng = random.Random(seed * 1000003 + sum(map(ord, prop)))
        cases = C.load_corpus(cfg["kinds"], prop)
        gen, _ = cfg["generate"](rng, tier, seed)
        cases += gen
        V.run_cases(hbin, cases)
        per_prop[prop] = len(cases)
    merged = os.path.join(prof, "all.profdata")
    subprocess.run([f"{TOOLS}/llvm-profdata", "merge", "-sparse", "-o", merged] + glob.glob(os.path.join(prof, "*.profraw")), check=True)
    out = subprocess.run([f"{TOOLS}/llvm-cov", "export", "-format=lcov", f"-instr-profile={merged}", hbin,
                          "-ignore-filename-regex=(\\.cargo|rustc|/verif/)"], stdout=subprocess.PIPE, text=True, check=True).stdout
    files, cur = {}, None
    for line in out.splitlines():
        if line.startswith("SF:"):
            cur = files.setdefault(line[3:], {})
        elif line.startswith("DA:") and cur is not None:
            ln, cnt = line[3:].split(",")[:2]
            cur[int(ln)] = max(cur.get(int(ln), 0), int(cnt))
    report, tot_hit, tot = {}, 0, 0
    for f, lines in sorted(files.items()):
        if not f.startswith("/repo/"):
            continue
        src = open(f).read().splitlines()
        # drop #[cfg(test)] modules: from the attribute line to the end of file (all test modules of this repo are trailing)
        cut = next((i + 1 for i, l in enumerate(src) if l.strip().startswith("#[cfg(test)]")), None)
        keep = {ln: c for ln, c in lines.items() if cut is None or ln < cut}
        if not keep:
            continue
        hit = sum(1 for c in keep.values() if c > 0)
        missed = sorted(ln for ln, c in keep.items() if c == 0)
        report[f] = dict(lines=len(keep), executed=hit, percent=round(100.0 * hit / len(keep), 1),
                         never_executed=[f"{ln}: {src[ln - 1].strip()[:110]}" for ln in missed])
        tot_hit += hit; tot += len(keep)
    res = dict(tier=tier, seed=seed, cases_per_property=per_prop, total_lines=tot, executed_lines=tot_hit,
               percent=round(100.0 * tot_hit / max(1, tot), 1), files=report,
               note="line coverage of /repo library code (test modules excluded) by the union of all properties' correspondence streams")
    V.write_json(os.path.join(V.VERIF, "coverage", "report.json"), res)
    shutil.rmtree(prof, ignore_errors=True)
    for f, r in report.items():
        print(f"{r['percent']:5.1f}%  {r['executed']:4d}/{r['lines']:4d}  {f}")
    print(f"total {res['percent']}% ({tot_hit}/{tot})")


if __name__ == "__main__":
    main()
