"""Generator of graph cases (C10, C11): operation sequences over pie_graph::DAG.

Every random choice comes from the `random.Random` passed in (seeded from VERIF_SEED + case
number), so a case is reproducible from its id.  A shadow edge set is kept only to *bias* the
choices (towards reordering insertions, cycle-closing insertions, re-insertion of existing
edges, operations on removed nodes); the expected results come from the Lean model, never
from this file.
"""
import itertools


def reach(edges, a):
    seen, st = set(), [a]
    while st:
        x = st.pop()
        for (s, d) in edges:
            if s == x and d not in seen:
                seen.add(d)
                st.append(d)
    return seen


def gen_case(rng, max_nodes=10, n_ops=30):
    ops = []
    live, removed, edges = [], [], set()
    nxt = 0
    stats = dict(addnode=0, addedge_new=0, addedge_back=0, addedge_cycle=0, addedge_existing=0,
                 addedge_removed=0, rmedge=0, rmedge_absent=0, rmout=0, rmnode=0, rmnode_removed=0,
                 setnode=0, setedge=0)
    k0 = rng.randint(2, min(5, max_nodes))
    for _ in range(k0):
        ops.append(f"addnode {rng.randint(0, 9)}")
        live.append(nxt); nxt += 1; stats["addnode"] += 1
    while len(ops) < n_ops:
        r = rng.random()
        if r < 0.10 and len(live) < max_nodes:
            ops.append(f"addnode {rng.randint(0, 9)}")
            live.append(nxt); nxt += 1; stats["addnode"] += 1
        elif r < 0.62 and len(live) >= 2:
            q = rng.random()
            d = rng.randint(0, 99)
            if q < 0.15 and edges:
                s, t = rng.choice(sorted(edges)); stats["addedge_existing"] += 1
            elif q < 0.30:
                # try to close a cycle: t reaches s
                cands = [(s, t) for t in live for s in reach(edges, t) if s in live]
                if cands:
                    s, t = rng.choice(cands); stats["addedge_cycle"] += 1
                else:
                    s, t = rng.sample(live, 2); stats["addedge_new"] += 1
            elif q < 0.36 and removed:
                s = rng.choice(removed + live); t = rng.choice(removed if s in live else removed + live)
                stats["addedge_removed"] += 1
            elif q < 0.40:
                s = t = rng.choice(live); stats["addedge_cycle"] += 1
            elif q < 0.80:
                # later-created -> earlier-created: likely rank(src) > rank(dst): Pearce-Kelly reorders
                s, t = sorted(rng.sample(live, 2), reverse=True); stats["addedge_back"] += 1
            else:
                s, t = rng.sample(live, 2); stats["addedge_new"] += 1
            ops.append(f"addedge {s} {t} {d}")
            if s in live and t in live and s != t and s not in reach(edges, t):
                edges.add((s, t))
        elif r < 0.72 and edges:
            if rng.random() < 0.8:
                s, t = rng.choice(sorted(edges)); stats["rmedge"] += 1
            else:
                s, t = rng.choice(live + removed), rng.choice(live + removed); stats["rmedge_absent"] += 1
            ops.append(f"rmedge {s} {t}")
            edges.discard((s, t))
        elif r < 0.78 and live:
            s = rng.choice(live + removed[:1])
            ops.append(f"rmout {s}"); stats["rmout"] += 1
            edges = {(a, b) for (a, b) in edges if a != s}
        elif r < 0.86 and live:
            if removed and rng.random() < 0.2:
                n = rng.choice(removed); stats["rmnode_removed"] += 1
            else:
                n = rng.choice(live); stats["rmnode"] += 1
            ops.append(f"rmnode {n}")
            if n in live:
                live.remove(n); removed.append(n)
                edges = {(a, b) for (a, b) in edges if a != n and b != n}
        elif r < 0.90 and live:
            ops.append(f"setnode {rng.choice(live + removed[:1])} {rng.randint(10, 19)}"); stats["setnode"] += 1
        elif r < 0.94 and edges:
            s, t = rng.choice(sorted(edges))
            ops.append(f"setedge {s} {t} {rng.randint(100, 199)}"); stats["setedge"] += 1
        elif len(live) < max_nodes:
            ops.append(f"addnode {rng.randint(0, 9)}")
            live.append(nxt); nxt += 1; stats["addnode"] += 1
    return ops, stats


def exhaustive_cases(n_nodes, n_ops):
    """All sequences of `n_ops` edge-level operations over `n_nodes` pre-created nodes."""
    base = [f"addnode {i}" for i in range(n_nodes)]
    alphabet = []
    for s in range(n_nodes):
        for t in range(n_nodes):
            alphabet.append(f"addedge {s} {t} {s * 10 + t}")
        alphabet.append(f"rmnode {s}")
    for s in range(n_nodes):
        for t in range(n_nodes):
            if s != t:
                alphabet.append(f"rmedge {s} {t}")
        alphabet.append(f"rmout {s}")
    for seq in itertools.product(alphabet, repeat=n_ops):
        yield base + list(seq)
