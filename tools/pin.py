#!/usr/bin/env python3
"""pin.py: record the hash of /repo's library sources the framework was calibrated on (tools/pinned.json). Run after
every commit to /repo made by the framework's author (hooks, fix: commits); never run by a check."""
import json, os, sys
sys.path.insert(0, os.path.dirname(os.path.abspath(__file__)))
import vcommon as V
json.dump(dict(repo_source_hash=V.repo_source_hash()), open(os.path.join(V.VERIF, "tools", "pinned.json"), "w"))
print(V.repo_source_hash())
