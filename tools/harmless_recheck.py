#!/usr/bin/env python3
"""harmless_recheck.py [ids...]: run every quick check against each behaviour-preserving refactoring kept under
seeded_harmless/<id>/patch.diff (in a patched copy, tools/mutrun.py; never /repo). Every check must stay silent: a
report here is a false alarm of the framework. Prints one line per refactoring."""
import os, subprocess, sys
root = "/verif/seeded_harmless"
ids = sys.argv[1:] or sorted(d for d in os.listdir(root) if os.path.isdir(os.path.join(root, d)))
for i in ids:
    p = subprocess.run(f"python3 /verif/tools/mutrun.py patch {root}/{i}/patch.diff", shell=True, stdout=subprocess.PIPE, stderr=subprocess.STDOUT, text=True)
    det = [l for l in p.stdout.splitlines() if l.startswith("== ")]
    print(i, det[0] if det else p.stdout[-300:], flush=True)
