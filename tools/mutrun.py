#!/usr/bin/env python3
"""Run the checks against a mutated copy of /repo without touching /repo or /verif:
  mutrun.py sync                      - (re)create /work/mutrun/{repo,verif} from the current trees
  mutrun.py patch <file.diff> [props] - apply a git diff to the copy, run the checks (all, or the listed ones), revert
  mutrun.py self [name...]            - run the built-in self-mutations (see SELF below)
Prints one line per check: property, exit code, VIOLATION lines."""
import os, subprocess, sys, json, time

ROOT = os.environ.get("MUTROOT", "/work/mutrun")
ALL = [f"C{i:02d}" for i in range(1, 21)]


def sh(cmd, cwd=None, check=False):
    p = subprocess.run(cmd, shell=True, cwd=cwd, stdout=subprocess.PIPE, stderr=subprocess.STDOUT, text=True)
    if check and p.returncode != 0:
        print(p.stdout); raise SystemExit(f"failed: {cmd}")
    return p.returncode, p.stdout


def sync():
    os.makedirs(ROOT, exist_ok=True)
    sh(f"rsync -a --delete --exclude target --exclude .git /repo/ {ROOT}/repo/", check=True)
    sh(f"cd {ROOT}/repo && rm -rf .git && git init -q && git add -A && git -c user.email=a@b -c user.name=a commit -qm base", check=True)
    sh(f"rsync -a --delete --exclude replays --exclude evidence --exclude .git /verif/ {ROOT}/verif/", check=True)
    sh(f"sed -i 's#/repo/#{ROOT}/repo/#g' {ROOT}/verif/harness/Cargo.toml", check=True)
    sh(f"cd {ROOT}/verif/harness && cargo build --release --offline", check=True)
    print("synced")


def run_checks(props, tier="quick"):
    res = {}
    for p in props:
        rc, out = sh(f"VERIF_REPO={ROOT}/repo ./check {p} {tier}", cwd=f"{ROOT}/verif")
        viol = [l for l in out.splitlines() if l.startswith("VIOLATION")]
        res[p] = (rc, viol, out.splitlines()[-1] if out.splitlines() else "")
    return res


def report(name, res):
    det = [p for p, (rc, v, _) in res.items() if rc != 0]
    print(f"== {name}: detected by {det if det else 'NOTHING'}")
    for p in det:
        rc, v, last = res[p]
        for l in v[:2]: print("   ", l)
    return det


def with_patch(apply_fn, name, props):
    sh("git checkout -q -- . && git clean -fdq", cwd=f"{ROOT}/repo")
    ok = apply_fn()
    if not ok:
        print(f"== {name}: PATCH DID NOT APPLY"); return None
    rc, out = sh("cargo build --offline -p pie -p pie_graph 2>&1 | tail -3", cwd=f"{ROOT}/repo")
    res = run_checks(props)
    det = report(name, res)
    sh("git checkout -q -- . && git clean -fdq", cwd=f"{ROOT}/repo")
    return det


def repl(path, old, new, count=1):
    def f():
        p = f"{ROOT}/repo/{path}"
        s = open(p).read()
        if old not in s: return False
        open(p, "w").write(s.replace(old, new, count))
        return True
    return f


SELF = {
 "dfs_forward_le": (repl("graph/src/lib.rs", "if !visited.contains(child_key) && child_topo_order < upper_bound {", "if !visited.contains(child_key) && child_topo_order <= upper_bound {"), ["C10", "C11"]),
 "dfs_forward_no_rollback": (repl("graph/src/lib.rs", "          self.node_info[dst.0].parents.remove(src);\n", ""), ["C10", "C11"]),
 "reorder_fwd_first": (repl("graph/src/lib.rs", "    for (key, topo_order) in change_backward {\n      all_keys.push(key);\n      all_topo_orders.push(topo_order);\n    }\n\n    for (key, topo_order) in change_forward {", "    for (key, topo_order) in change_forward.clone() {\n      all_keys.push(key);\n      all_topo_orders.push(topo_order);\n    }\n\n    for (key, topo_order) in change_backward {"), ["C10", "C11"]),
 "remove_node_no_last_dec": (repl("graph/src/lib.rs", "    self.last_topo_order -= 1;\n", ""), ["C10", "C11"]),
 "remove_node_compaction_ge": (repl("graph/src/lib.rs", "if other_node.topo_order > node_info.topo_order {", "if other_node.topo_order >= node_info.topo_order && other_node.topo_order > 1 {"), ["C10", "C11"]),
 "check_task_ignores_write": (repl("pie/src/context/top_down.rs", "        Dependency::Read(resource_dependency) | Dependency::Write(resource_dependency) => resource_dependency.is_consistent_top_down(", "        Dependency::Write(_) => Ok(true),\n        Dependency::Read(resource_dependency) => resource_dependency.is_consistent_top_down("), ["C01", "C02", "C09"]),
 "read_transitive_args_swapped": (repl("pie/src/context/mod.rs", "if !self.store.contains_transitive_task_dependency(current_executing_task_node, &writer_node) {", "if !self.store.contains_transitive_task_dependency(&writer_node, current_executing_task_node) {"), ["C05", "C20", "C01"]),
 "reset_keeps_edges": (repl("pie/src/store.rs", "    self.graph.remove_outgoing_edges_of_node(src);\n  }\n}\n\n\n/// Verification hook", "  }\n}\n\n\n/// Verification hook"), ["C08", "C06", "C01"]),
 "td_error_consistent": (repl("pie/src/context/top_down.rs", "          self.session.dependency_check_errors.push(e);\n          return None;", "          self.session.dependency_check_errors.push(e);"), ["C18", "C01"]),
 "td_error_swallowed": (repl("pie/src/context/top_down.rs", "          self.session.dependency_check_errors.push(e);\n          return None;", "          let _ = e;\n          return None;"), ["C18"]),
 "queue_pop_front": (repl("pie/src/context/bottom_up.rs", "    let Some(node) = self.vec.pop() else {\n      return None;\n    };", "    if self.vec.is_empty() { return None; }\n    let node = self.vec.remove(0);"), ["C04", "C03"]),
 "err_equals_stamps_ok": (repl("pie/src/task.rs", "    output.as_ref().err().cloned()\n  }", "    output.as_ref().err().cloned().filter(|_| true)\n  }").__class__ and repl("pie/src/task.rs", "    let new_stamp = output.as_ref().err();\n    if new_stamp != stamp.as_ref() {", "    let new_stamp = output.as_ref().err();\n    if new_stamp.is_some() != stamp.is_some() {"), ["C12"]),
 "composite_twice": (repl("pie/src/tracker/mod.rs", "    self.0.write_end(resource, checker, stamp);\n    self.1.write_end(resource, checker, stamp);", "    self.0.write_end(resource, checker, stamp);\n    self.0.write_end(resource, checker, stamp);"), ["C17"]),
 "bu_require_no_consistent": (repl("pie/src/context/bottom_up.rs", "    self.session.consistent.insert(dst);\n    output\n  }", "    output\n  }"), ["C04", "C03", "C02"]),
 "map_checker_none_consistent": (repl("pie/src/resource/map.rs", "    let inconsistency = if value != stamp.as_ref() {", "    let inconsistency = if value.is_some() && value != stamp.as_ref() {"), ["C14", "C01", "C09"]),
 "hash_dir_no_sep": (repl("pie/src/resource/file/hash_checker.rs", "      hasher.update([0u8]);\n", ""), ["C13"]),
 "modified_stamp_writer_no_exists": (repl("pie/src/resource/file.rs", "    if !exists(path)? {\n      return Ok(None);\n    }\n    Ok(Some(file.metadata()?.modified()?))", "    Ok(Some(file.metadata()?.modified()?))"), ["C13"]),
 "hash_reader_no_rewind": (repl("pie/src/resource/file/hash_checker.rs", "    open_read.rewind()?; // Rewind to restore the file (if any) into a fresh state.\n", ""), ["C13"]),
 "eq_any_no_type": (repl("pie/src/store.rs", "    if let Some(node) = self.task_to_node.get(task) {\n      *node\n    } else {", "    if let Some(node) = self.task_to_node.iter().find(|(k, _)| format!(\"{:?}\", k) == format!(\"{:?}\", task)).map(|(_, n)| n) {\n      *node\n    } else {"), ["C15"]),
 "validate_write_readers_skipped_when_writer_self": (repl("pie/src/context/mod.rs", "  for reading_task_node in session.store.get_tasks_reading_from_resource(dst) {\n    if !session.store.contains_transitive_task_dependency(&reading_task_node, src) {", "  for reading_task_node in session.store.get_tasks_reading_from_resource(dst).skip(1) {\n    if !session.store.contains_transitive_task_dependency(&reading_task_node, src) {"), ["C05"]),
 "check_task_end_first_consistent": (repl("pie/src/context/top_down.rs", "      match consistent {\n        Ok(false) => return None,", "      match consistent {\n        Ok(true) if dependencies.len() > 3 => break,\n        Ok(false) => return None,"), ["C01", "C02"]),
}


def main():
    a = sys.argv[1:]
    if not a: print(__doc__); return
    if a[0] == "sync": return sync()
    if a[0] == "patch":
        path = os.path.abspath(a[1]); props = a[2:] or ALL
        def ap():
            rc, out = sh(f"git apply {path}", cwd=f"{ROOT}/repo")
            if rc: print(out)
            return rc == 0
        return with_patch(ap, os.path.basename(os.path.dirname(path)) + "/" + os.path.basename(path), props)
    if a[0] == "self":
        names = a[1:] or list(SELF)
        summary = {}
        for n in names:
            f, expect = SELF[n]
            t0 = time.time()
            det = with_patch(f, n, ALL if os.environ.get("MUT_ALL") else expect)
            summary[n] = dict(expected=expect, detected=det, secs=round(time.time() - t0))
        print(json.dumps(summary, indent=1))


if __name__ == "__main__":
    main()
