#!/bin/sh
# run every check once (tier $1, default quick); print one summary line per property
tier=${1:-quick}
cd /verif
for p in C01 C02 C03 C04 C05 C06 C07 C08 C09 C10 C11 C12 C13 C14 C15 C16 C17 C18 C19 C20; do
  ./check $p $tier 2>&1 | grep -v "^KNOWN-FINDING" | tail -3
done
