#!/bin/sh
# rebuild driver + harness, quietly
( cd /verif/lean && lake build driver 2>&1 | grep -E "error|Build" )
( cd /verif/harness && CARGO_NET_OFFLINE=true cargo build --release --offline 2>&1 | grep -E "^error|Finished" -A5 )
