"""Executable statements of C10 and C11, evaluated on the observations of the REAL crate only
(independent of the Lean model): an edge-set specification is replayed next to the dump."""


def parse_list(s):
    s = s.strip()[1:-1]
    return [x for x in s.split(",") if x != ""] if s else []


def parse_steps(lines):
    """-> list of (op, result, dump_lines)"""
    steps, cur = [], None
    for l in lines:
        if l.startswith("op "):
            body, res = l[3:].rsplit(" -> ", 1)
            cur = (body, res, [])
            steps.append(cur)
        elif cur is not None:
            cur[2].append(l)
        else:
            steps.append(("<none>", l, []))
    return steps


def parse_dump(dl):
    d = dict(nodes={}, du={}, ds={})
    for l in dl:
        t = l.split(" ")
        if t[0] == "n":
            f = {kv.split("=", 1)[0]: kv.split("=", 1)[1] for kv in t[2:]}
            pair = lambda s: [(int(x.split(":")[0]), int(x.split(":")[1])) for x in parse_list(s)]
            ints = lambda s: [int(x) for x in parse_list(s)]
            d["nodes"][int(t[1])] = dict(rank=int(f["rank"]), data=int(f["data"]), out=pair(f["out"]), inc=pair(f["in"]),
                                         outn=ints(f["outn"]), inn=ints(f["inn"]), outd=ints(f["outd"]), ind=ints(f["ind"]),
                                         outnd=ints(f["outnd"]), innd=ints(f["innd"]))
        elif t[0] in ("ce", "ct", "tc"):
            d[t[0]] = t[1:]
        elif t[0] == "ed":
            d["ed"] = [row.split(",") for row in t[1:]]
        elif t[0] in ("du", "ds"):
            d[t[0]][int(t[1])] = None if t[2] == "err" else parse_list(t[2])
        elif t[0] == "iu":
            d["iu"] = parse_list(t[1])
        elif t[0] == "len":
            d["len"], d["empty"] = int(t[1]), t[3]
    return d


class Spec:
    def __init__(self):
        self.live, self.n, self.out, self.inc = {}, 0, {}, {}

    def reach(self, a):
        seen, st = [], [a]
        while st:
            x = st.pop()
            for (c, _) in self.out.get(x, []):
                if c not in seen:
                    seen.append(c); st.append(c)
        return seen

    def has(self, s, t):
        return any(c == t for (c, _) in self.out.get(s, []))

    def step(self, op):
        t = op.split(" ")
        k = t[0]
        if k == "addnode":
            i = self.n; self.n += 1
            self.live[i] = int(t[1]); self.out[i] = []; self.inc[i] = []
            return f"node {i}"
        if k == "addedge":
            s, d, x = int(t[1]), int(t[2]), int(t[3])
            if s not in self.live or d not in self.live: return "err-missing"
            if s == d or s in self.reach(d): return "err-cycle"
            if self.has(s, d): return "ok-existing"
            self.out[s].append((d, x)); self.inc[d].append(s)
            return "ok-new"
        if k == "rmedge":
            s, d = int(t[1]), int(t[2])
            if s in self.live and d in self.live and self.has(s, d):
                x = [v for (c, v) in self.out[s] if c == d][0]
                self.out[s] = [(c, v) for (c, v) in self.out[s] if c != d]
                self.inc[d] = [p for p in self.inc[d] if p != s]
                return f"some {x}"
            return "none"
        if k == "rmout":
            s = int(t[1])
            if s in self.live and self.out[s]:
                r = self.out[s]
                for (c, _) in r: self.inc[c] = [p for p in self.inc[c] if p != s]
                self.out[s] = []
                return "some [" + ",".join(f"{c}:{v}" for (c, v) in r) + "]"
            return "none"
        if k == "rmnode":
            n = int(t[1])
            if n not in self.live: return "0"
            for (c, _) in self.out[n]: self.inc[c] = [p for p in self.inc[c] if p != n]
            for p in self.inc[n]: self.out[p] = [(c, v) for (c, v) in self.out[p] if c != n]
            del self.live[n]; del self.out[n]; del self.inc[n]
            return "1"
        if k == "setnode":
            n = int(t[1])
            if n in self.live: self.live[n] = int(t[2]); return "set"
            return "absent"
        if k == "setedge":
            s, d = int(t[1]), int(t[2])
            if s in self.live and d in self.live and self.has(s, d):
                self.out[s] = [(c, (int(t[3]) if c == d else v)) for (c, v) in self.out[s]]
                return "set"
            return "absent"
        return None


def check(lines, want):
    """want: 'C10' or 'C11'. Returns list of failure strings (empty = property held)."""
    fails = []
    spec = Spec()
    prev_dump = None
    for i, (op, res, dl) in enumerate(parse_steps(lines)):
        if op == "<none>":
            continue
        exp = spec.step(op)
        if exp is None:
            continue
        full = bool(dl)
        d = parse_dump(dl) if full else None
        if want == "C10":
            if op.startswith("addedge") and res != exp:
                fails.append(f"step {i} '{op}': add_edge returned {res}, edge-set specification says {exp}")
            if op.startswith("addedge") and res.startswith("err") and full and prev_dump is not None and dl != prev_dump:
                fails.append(f"step {i} '{op}': rejected insertion changed the graph")
            if full:
                ranks = sorted(n["rank"] for n in d["nodes"].values())
                if ranks != list(range(1, len(ranks) + 1)):
                    fails.append(f"step {i} '{op}': ranks {ranks} are not a bijection onto 1..{len(ranks)}")
                for s, n in d["nodes"].items():
                    for (c, _) in n["out"]:
                        if c not in d["nodes"] or not n["rank"] < d["nodes"][c]["rank"]:
                            fails.append(f"step {i} '{op}': edge {s}->{c} does not go upward in rank")
        else:
            if res != exp:
                fails.append(f"step {i} '{op}': result {res}, edge-set specification says {exp}")
            if full:
                ids = list(range(spec.n))
                if sorted(d["nodes"]) != sorted(spec.live):
                    fails.append(f"step {i} '{op}': live nodes {sorted(d['nodes'])} vs {sorted(spec.live)}")
                    prev_dump = dl
                    continue
                rank = {n: v["rank"] for n, v in d["nodes"].items()}
                for n, v in d["nodes"].items():
                    eo, ei = spec.out[n], [(p, [x for (c, x) in spec.out[p] if c == n][0]) for p in spec.inc[n]]
                    if v["data"] != spec.live[n]: fails.append(f"step {i} '{op}': node {n} data")
                    if v["out"] != eo: fails.append(f"step {i} '{op}': outgoing of {n} is {v['out']}, first-insertion order/data says {eo}")
                    if v["inc"] != ei: fails.append(f"step {i} '{op}': incoming of {n} is {v['inc']}, first-insertion order/data says {ei}")
                    if v["outn"] != [c for c, _ in eo] or v["outd"] != [x for _, x in eo] or v["outnd"] != [spec.live[c] for c, _ in eo]:
                        fails.append(f"step {i} '{op}': outgoing accessor variants of {n} disagree")
                    if v["inn"] != [c for c, _ in ei] or v["ind"] != [x for _, x in ei] or v["innd"] != [spec.live[c] for c, _ in ei]:
                        fails.append(f"step {i} '{op}': incoming accessor variants of {n} disagree")
                for a in ids:
                    ra = spec.reach(a) if a in spec.live else []
                    for b in ids:
                        e = a in spec.live and b in spec.live and spec.has(a, b)
                        if d["ce"][a][b] != ("1" if e else "0"): fails.append(f"step {i} '{op}': contains_edge({a},{b})")
                        tr = a in spec.live and b in spec.live and a != b and b in ra
                        if d["ct"][a][b] != ("1" if tr else "0"): fails.append(f"step {i} '{op}': contains_transitive_edge({a},{b})")
                        ed = str([x for (c, x) in spec.out[a] if c == b][0]) if e else "-"
                        if d["ed"][a][b] != ed: fails.append(f"step {i} '{op}': get_edge_data({a},{b})")
                        if a in spec.live and b in spec.live:
                            tc = "L" if rank[a] < rank[b] else ("E" if rank[a] == rank[b] else "G")
                        else:
                            tc = "P"
                        if d["tc"][a][b] != tc: fails.append(f"step {i} '{op}': topo_cmp({a},{b})")
                    if a in spec.live:
                        edu = sorted((rank[m], m) for m in ra)
                        if d["du"][a] != [f"{r}:{m}" for r, m in edu]: fails.append(f"step {i} '{op}': descendants_unsorted({a})")
                        if d["ds"][a] != [str(m) for _, m in edu]: fails.append(f"step {i} '{op}': descendants({a}) = {d['ds'][a]}, expected {[m for _, m in edu]}")
                    else:
                        if d["du"][a] is not None or d["ds"][a] is not None: fails.append(f"step {i} '{op}': descendants of removed node {a}")
                if d["iu"] != [f"{r}:{m}" for r, m in sorted((r, m) for m, r in rank.items())]: fails.append(f"step {i} '{op}': iter_unsorted")
                if d["len"] != len(spec.live) or d["empty"] != ("1" if not spec.live else "0"): fails.append(f"step {i} '{op}': len/is_empty")
        if full:
            prev_dump = dl
        if len(fails) > 5:
            break
    return fails
