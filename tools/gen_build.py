"""Generators of build cases: scripted task programs + histories.

Well-formed programs (C01-C04, C08, C09, C16, C17): requires go to higher-numbered tasks only;
every generated resource has one designated writer; a reader of a generated resource requires its
writer directly before reading; one checker per (task, target); dependency structure branches on
the values seen. Malformed programs are derived from well-formed ones by one injection
(C05, C06, C07, C18, C19, C20).  All choices come from the rng passed in."""

OCHK = [0, 0, 0, 1, 2, 3, 4, 5]          # output checker ids (bias to Equals)
RCHK_SRC = [0, 0, 0, 1, 2, 3]            # resource checkers for reads
EXACT_ONLY = False


class Prog:
    def __init__(self):
        self.tasks = {}       # id -> script (nested tuples)
        self.sources = []
        self.generated = {}   # res id -> writer task id
        self.ochk = {}        # (task, target task) -> checker
        self.rchk = {}        # (task, res) -> checker

    def lines(self):
        return [f"task {t} {' '.join(ser(s))}" for t, s in sorted(self.tasks.items())]


def ser(s):
    k = s[0]
    if k == "ret": return ["ret"] + ser_e(s[1])
    if k == "panic": return ["panic"]
    if k in ("req", "read"): return [k, str(s[1]), str(s[2])] + ser(s[3])
    if k in ("write", "wrote"):
        return [k, str(s[1]), str(s[2])] + (["none"] if s[3] is None else ["some"] + ser_e(s[3])) + ser(s[4])
    if k == "if": return ["if"] + ser_e(s[1]) + ser(s[2]) + ser(s[3])
    raise ValueError(s)


def ser_e(e):
    k = e[0]
    if k in ("k", "v", "n"): return [k, str(e[1])]
    if k == "%": return ["%"] + ser_e(e[1])
    return [k] + ser_e(e[1]) + ser_e(e[2])


def gen_expr(rng, nvars, depth=2):
    if depth == 0 or rng.random() < 0.35:
        if nvars and rng.random() < 0.7: return ("v", rng.randrange(nvars))
        return ("k", rng.randint(0, 5))
    op = rng.choice(["+", "+", "-", "<", "=", "%", "n"])
    if op == "%": return ("%", gen_expr(rng, nvars, depth - 1))
    if op == "n": return ("n", rng.randrange(nvars)) if nvars else ("k", rng.randint(0, 3))
    return (op, gen_expr(rng, nvars, depth - 1), gen_expr(rng, nvars, depth - 1))


def gen_program(rng, ntasks=None, exact=False, allow_wrote=True, writes=True):
    p = Prog()
    n = ntasks or rng.randint(3, 8)
    ns = rng.randint(1, 4)
    # resource ids < 100: the in-memory map resource (MapKey); ids >= 100: a resource whose writer truncates when opened
    p.sources = [s if rng.random() < 0.6 else 100 + s for s in range(1, ns + 1)]
    ng = rng.randint(0, 3) if writes else 0
    for g in range(ng):
        p.generated[(10 if rng.random() < 0.5 else 110) + g] = rng.randint(2, n)   # writer: not task 1, so somebody lower can read it
    ochoices = [0] if exact else OCHK
    rchoices = [0] if exact else RCHK_SRC

    def ochk(i, j):
        return p.ochk.setdefault((i, j), rng.choice(ochoices))

    def rchk(i, r):
        return p.rchk.setdefault((i, r), rng.choice(rchoices))

    def stmts(i, nvars, budget, depth, written):
        """returns a script; `written`: generated resources already written on this path"""
        if budget <= 0:
            return ("ret", gen_expr(rng, nvars))
        r = rng.random()
        mine = [g for g, w in p.generated.items() if w == i and g not in written]
        readable_gen = [g for g, w in p.generated.items() if w > i]
        if r < 0.30 and i < n:
            j = rng.randint(i + 1, n)
            return ("req", j, ochk(i, j), stmts(i, nvars + 1, budget - 1, depth, written))
        if r < 0.55:
            s = rng.choice(p.sources)
            return ("read", s, rchk(i, s), stmts(i, nvars + 1, budget - 1, depth, written))
        if r < 0.70 and readable_gen:
            g = rng.choice(readable_gen)
            w = p.generated[g]
            return ("req", w, ochk(i, w), ("read", g, rchk(i, g), stmts(i, nvars + 2, budget - 1, depth, written)))
        if r < 0.85 and mine:
            g = rng.choice(mine)
            kind = "wrote" if (allow_wrote and rng.random() < 0.3) else "write"
            val = None if rng.random() < 0.1 else gen_expr(rng, nvars)
            return (kind, g, 0, val, stmts(i, nvars, budget - 1, depth, written | {g}))
        if r < 0.97 and depth > 0 and nvars > 0:
            return ("if", gen_expr(rng, nvars), stmts(i, nvars, budget - 1, depth - 1, written),
                    stmts(i, nvars, budget - 1, depth - 1, written))
        return ("ret", gen_expr(rng, nvars))

    for i in range(1, n + 1):
        p.tasks[i] = stmts(i, 0, rng.randint(1, 5), 2, frozenset())
    return p


def all_resources(p):
    return p.sources + sorted(p.generated)


def next_roots(rng, n, prev):
    """roots of the next session: often the same as (or a superset/subset of) the previous session's roots, so that
    what an earlier session left behind for these very tasks is met again"""
    r = rng.random()
    if prev and r < 0.40: return list(prev)
    if prev and r < 0.55: return list(prev) + [rng.randint(1, n)]
    if prev and r < 0.65: return [rng.choice(prev)]
    return [rng.randint(1, n) for _ in range(rng.randint(1, 3))]


def ext_changes(rng, p, k=None, values=range(0, 6)):
    """a batch of external changes; returns (lines, changed resource ids)"""
    res = all_resources(p)
    k = k if k is not None else rng.randint(0, 3)
    lines, changed = [], []
    for _ in range(k):
        r = rng.choice(res if rng.random() < 0.35 else p.sources)
        if rng.random() < 0.15:
            lines.append(f"del {r}")
        else:
            lines.append(f"set {r} {rng.choice(list(values))}")
        changed.append(r)
    return lines, sorted(set(changed))


def history_td(rng, p, nsessions=None):
    """top-down sessions with arbitrary roots, external changes in between; after each session the
    from-scratch reference build of the same roots."""
    lines = [f"set {s} {rng.randint(0, 5)}" for s in p.sources if rng.random() < 0.85]
    n = len(p.tasks)
    roots = None
    for _ in range(nsessions or rng.randint(2, 5)):
        roots = next_roots(rng, n, roots)
        lines.append("session")
        lines += [f"req {t}" for t in roots]
        if rng.random() < 0.3:
            lines.append(f"req {rng.choice(roots)}")   # require again, nothing changed
            roots.append(roots[-1] if False else int(lines[-1].split()[1]))
        lines.append("endsession")
        lines.append("clean " + " ".join(map(str, roots)))
        ch, _ = ext_changes(rng, p)
        lines += ch
    return lines


def history_bu(rng, p, nrounds=None):
    """every batch of external changes is reported completely to a bottom-up build; top-down
    requires follow; then every known task is required in a fresh session and compared with the
    from-scratch build."""
    lines = [f"set {s} {rng.randint(0, 5)}" for s in p.sources if rng.random() < 0.85]
    n = len(p.tasks)
    roots = sorted(set(rng.randint(1, n) for _ in range(rng.randint(1, 4))))
    lines += ["session"] + [f"req {t}" for t in roots] + ["endsession"]
    for _ in range(nrounds or rng.randint(1, 4)):
        ch, changed = ext_changes(rng, p, k=rng.randint(1, 4))
        lines += ch
        extra = [r for r in all_resources(p) if r not in changed and rng.random() < 0.15]  # reporting unchanged ones is allowed
        rep = changed + extra
        rng.shuffle(rep)
        lines.append("session")
        lines.append("bu " + " ".join(map(str, rep)))
        for _ in range(rng.randint(0, 2)):
            lines.append(f"req {rng.randint(1, n)}")
        lines.append("endsession")
        lines += ["session", "reqknown", "endsession", "cleanknown"]
    return lines


def add_relays(rng, p):
    """Make some readers of generated resources depend on the generator only TRANSITIVELY: `req w` in front of a read of
    what `w` generates becomes `req relay` where the relay task statically requires `w` first and returns its output
    (relays may be shared between readers, and chained).  The programs stay free of hidden dependencies in every state
    (the path reader -> relay -> ... -> w is static); they are no longer direct-require programs (static roles)."""
    n = max(p.tasks)
    nxt = [n + 1]
    shared = {}

    def relay_for(w):
        if w in shared and rng.random() < 0.6: return shared[w]
        r = nxt[0]; nxt[0] += 1
        inner = w
        if rng.random() < 0.25:               # chain of two relays
            r2 = nxt[0]; nxt[0] += 1
            p.tasks[r2] = ("req", w, 0, ("ret", ("v", 0)))
            inner = r2
        p.tasks[r] = ("req", inner, 0, ("ret", ("v", 0)))
        shared[w] = r
        return r

    def reads(s, acc):
        k = s[0]
        if k == "read": acc.add(s[1]); reads(s[3], acc)
        elif k == "req": reads(s[3], acc)
        elif k in ("write", "wrote"): reads(s[4], acc)
        elif k == "if": reads(s[2], acc); reads(s[3], acc)
        return acc

    def repl(s, m):
        k = s[0]
        if k == "req": return ("req", m.get(s[1], s[1]), s[2], repl(s[3], m))
        if k == "read": return ("read", s[1], s[2], repl(s[3], m))
        if k in ("write", "wrote"): return (k, s[1], s[2], s[3], repl(s[4], m))
        if k == "if": return ("if", s[1], repl(s[2], m), repl(s[3], m))
        return s
    for t in sorted(p.tasks):
        if t > n: continue
        ws = {p.generated[g] for g in reads(p.tasks[t], set()) if g in p.generated and p.generated[g] != t}
        m = {w: relay_for(w) for w in sorted(ws) if rng.random() < 0.6}
        if m: p.tasks[t] = repl(p.tasks[t], m)
    return p


def case_td_relay(rng):
    while True:
        p = gen_program(rng, exact=rng.random() < 0.5)
        if p.generated: break
    return add_relays(rng, p).lines() + history_td(rng, p)


def case_bu_relay(rng):
    while True:
        p = gen_program(rng, exact=rng.random() < 0.5)
        if p.generated: break
    return add_relays(rng, p).lines() + history_bu(rng, p)


def case_td(rng, exact=False):
    p = gen_program(rng, exact=exact)
    return p.lines() + history_td(rng, p)


def case_bu(rng, exact=False):
    p = gen_program(rng, exact=exact)
    return p.lines() + history_bu(rng, p)


# ------------------------------------------------------------------ script surgery for injections
def shift_e(e, frm, by):
    k = e[0]
    if k in ("v", "n"): return (k, e[1] + by if e[1] >= frm else e[1])
    if k == "k": return e
    if k == "%": return ("%", shift_e(e[1], frm, by))
    return (k, shift_e(e[1], frm, by), shift_e(e[2], frm, by))


def shift(s, frm, by):
    """renumber variables >= frm (a binder was inserted in front of this sub-script)"""
    k = s[0]
    if k == "ret": return ("ret", shift_e(s[1], frm, by))
    if k == "panic": return s
    if k in ("req", "read"): return (k, s[1], s[2], shift(s[3], frm, by))
    if k in ("write", "wrote"): return (k, s[1], s[2], None if s[3] is None else shift_e(s[3], frm, by), shift(s[4], frm, by))
    if k == "if": return ("if", shift_e(s[1], frm, by), shift(s[2], frm, by), shift(s[3], frm, by))
    raise ValueError(s)


def positions(s, nvars=0, path=()):
    """all insertion points: (path, nvars at that point)"""
    yield (path, nvars)
    k = s[0]
    if k in ("req", "read"): yield from positions(s[3], nvars + 1, path + (3,))
    elif k in ("write", "wrote"): yield from positions(s[4], nvars, path + (4,))
    elif k == "if":
        yield from positions(s[2], nvars, path + (2,))
        yield from positions(s[3], nvars, path + (3,))


def insert_at(s, path, make):
    """replace the sub-script `rest` at `path` by make(rest)"""
    if not path: return make(s)
    l = list(s)
    l[path[0]] = insert_at(s[path[0]], path[1:], make)
    return tuple(l)


def inject(rng, script, stmt_maker, guard=None, gchk=0):
    """Insert a statement at a random position. `stmt_maker(nvars, rest)` returns the new sub-script given the
    (already shifted if it binds) rest. `guard=(src, value)`: only when source `src` currently equals `value`."""
    path, nv = rng.choice(list(positions(script)))

    def make(rest):
        if guard is None:
            return stmt_maker(nv, rest)
        src, val = guard
        rest1 = shift(rest, nv, 1)
        return ("read", src, gchk, ("if", ("=", ("v", nv), ("k", val)), stmt_maker(nv + 1, rest1), rest1))
    return insert_at(script, path, make)


def binder(kind, a, b):
    """statement that binds one variable: ('req', t, c) / ('read', r, c)"""
    def mk(nv, rest):
        return (kind, a, b, shift(rest, nv, 1))
    return mk


def writer_stmt(kind, r, c, val):
    def mk(nv, rest):
        return (kind, r, c, val, rest)
    return mk


def history_mixed(rng, p, sessions=None, clean="clean", report_all=True, cleannodes=False, bu_prob=0.4):
    """top-down and bottom-up sessions mixed, external changes (sources mostly), reference builds."""
    lines = [f"set {s} {rng.randint(0, 3)}" for s in p.sources]
    n = len(p.tasks)
    changed = []
    roots = None
    for _ in range(sessions or rng.randint(2, 5)):
        lines.append("session")
        roots = next_roots(rng, n, roots)
        if changed and rng.random() < bu_prob:
            # the bottom-up build usually comes first; sometimes a require precedes it in the same session, and sometimes
            # a second bottom-up build follows the requires (session-level state must survive: errors, consistent set)
            if rng.random() < 0.25: lines.append(f"req {rng.choice(roots)}")
            lines.append("bu " + " ".join(map(str, changed)))
            lines += [f"req {t}" for t in roots]
            if rng.random() < 0.15: lines.append("bu " + " ".join(map(str, changed[:1])))
        else:
            lines += [f"req {t}" for t in roots]
        lines.append("endsession")
        lines.append(clean if clean != "clean" else "clean " + " ".join(map(str, roots)))
        if cleannodes: lines.append("cleannodes")
        # history shaping: sometimes nothing changes between two sessions (idempotence, leftovers of an abort show)
        ch, changed = ext_changes(rng, p, k=(0 if rng.random() < 0.25 else rng.randint(1, 3)), values=range(0, 4))
        lines += ch
    return lines


def case_hidden(rng):
    """C05: a read or a write without the required task dependency injected into a well-formed program."""
    while True:
        p = gen_program(rng, allow_wrote=False)
        if p.generated: break
    meta = dict(uses_wrote=False)
    g = rng.choice(sorted(p.generated)); w = p.generated[g]
    guard = (rng.choice(p.sources), rng.randint(0, 3)) if rng.random() < 0.5 else None
    if rng.random() < 0.5:
        x = rng.choice([t for t in p.tasks if t != w])           # hidden read of a generated resource
        p.tasks[x] = inject(rng, p.tasks[x], binder("read", g, 0), guard)
        meta["injected"] = f"task {x} reads MK({g}) (writer {w}) without requiring it"
    else:
        s = rng.choice(p.sources)                                 # hidden write to a resource others read
        y = rng.choice(list(p.tasks))
        kind = "write"
        p.tasks[y] = inject(rng, p.tasks[y], writer_stmt(kind, s, 0, ("k", rng.randint(0, 3))), guard)
        meta["injected"] = f"task {y} writes source MK({s})"
    return p.lines() + history_mixed(rng, p), meta


def case_hidden_polluted(rng):
    """C05: a hidden read directly after a legitimate reachability query that ended early: task A requires several tasks
    (one of them leads to the generator of g, others lead to the generator V of h) and reads g; then task B reads h without
    requiring V.  Whatever the first query left behind (scratch space, caches) must not make the second one positive."""
    g, h = rng.choice([10, 110]), rng.choice([20, 120])
    src = rng.choice([1, 101])
    # ids: B=1, A=2, siblings 3.., M, W, V last
    nsib = rng.randint(1, 3)
    sib = list(range(3, 3 + nsib))
    M, W, V = 3 + nsib, 4 + nsib, 5 + nsib
    lines = [f"task {V} read {src} 0 write {h} 0 some + v 0 k 1 ret k 1",
             f"task {W} read {src} 0 write {g} 0 some v 0 ret k 2",
             f"task {M} req {W} {rng.choice([0, 4])} ret v 0"]
    for x in sib:
        lines.append(f"task {x} req {V} {rng.choice([0, 4])} ret + v 0 k {x}" if rng.random() < 0.8 else f"task {x} read {src} 0 ret v 0")
    reqs = sib + [M]
    rng.shuffle(reqs)
    if rng.random() < 0.5: reqs = [x for x in reqs if x != M] + [M]          # generator path last = searched first
    body = " ".join(f"req {x} 0" for x in reqs)
    lines.append(f"task 2 {body} read {g} 0 ret v {len(reqs)}")
    pre = rng.choice(["", f"req {rng.choice(sib)} 4 ", f"read {src} 0 "])
    lines.append(f"task 1 {pre}read {h} 0 ret k 0")
    hist = [f"set {src} {rng.randint(0, 3)}"]
    order = rng.choice([[2, 1], [V, 2, 1], [2, V, 1], [1, 2]])
    if rng.random() < 0.6:
        hist += ["session"] + [f"req {t}" for t in order] + ["endsession", "cleannodes"]
    else:
        for t in order: hist += ["session", f"req {t}", "endsession", "cleannodes"]
    if rng.random() < 0.5:
        hist += [f"set {src} {rng.randint(4, 6)}", "session"] + ([f"bu {src}"] if rng.random() < 0.5 else []) + ["req 2", "req 1", "endsession", "cleannodes"]
    return sorted(lines, key=lambda l: int(l.split()[1])) + hist, dict(injected="task 1 reads a generated resource without requiring its generator, right after a legitimate query", uses_wrote=False)


def case_overlap(rng):
    """C06: a second writer of a generated resource."""
    while True:
        p = gen_program(rng, allow_wrote=False)
        if p.generated: break
    g = rng.choice(sorted(p.generated)); w = p.generated[g]
    y = rng.choice([t for t in p.tasks if t != w])
    guard = (rng.choice(p.sources), rng.randint(0, 3)) if rng.random() < 0.5 else None
    kind = "wrote" if rng.random() < 0.25 else "write"
    p.tasks[y] = inject(rng, p.tasks[y], writer_stmt(kind, g, 0, ("k", rng.randint(0, 5))), guard)
    meta = dict(uses_wrote=(kind == "wrote"), injected=f"task {y} also writes MK({g}) (designated writer {w})")
    return p.lines() + history_mixed(rng, p), meta


def case_cycle(rng):
    """C07: requires that close a cycle of length 1..4, unconditionally or only for particular values."""
    p = gen_program(rng)
    n = len(p.tasks)
    k = rng.randint(1, min(4, n))
    chain = rng.sample(sorted(p.tasks), k)
    guard = (rng.choice(p.sources), rng.randint(0, 3)) if rng.random() < 0.6 else None
    for i, t in enumerate(chain):
        nxt = chain[(i + 1) % k]
        if guard is None:
            # unconditional, at the very front: every require of a chain member must abort
            p.tasks[t] = ("req", nxt, rng.choice([0, 4]), shift(p.tasks[t], 0, 1))
        else:
            p.tasks[t] = inject(rng, p.tasks[t], binder("req", nxt, rng.choice([0, 4])), guard if i == 0 else None)
    meta = dict(injected=f"cycle {chain} guard {guard}")
    if guard is None: meta["expect_cyclic"] = chain
    hist = history_mixed(rng, p)
    if guard is None:
        hist = [l for l in hist if not l.startswith("bu")]
    return p.lines() + hist, meta


def case_failing_checker(rng, bu_prob=0.4, stamp_failures=True):
    """C18: resource checkers that fail at validation time (any position, several per session, disappearing later)."""
    p = gen_program(rng, allow_wrote=True)
    nfail = 0
    for (t, r), c in list(p.rchk.items()):
        if r in p.sources and rng.random() < 0.6:
            p.rchk[(t, r)] = (10 if (rng.random() < 0.8 or not stamp_failures) else 30) + rng.randint(0, 3)
            nfail += 1

    def rewrite(t, s):
        k = s[0]
        if k == "read": return ("read", s[1], p.rchk.get((t, s[1]), s[2]), rewrite(t, s[3]))
        if k == "req": return ("req", s[1], s[2], rewrite(t, s[3]))
        if k in ("write", "wrote"): return (k, s[1], s[2], s[3], rewrite(t, s[4]))
        if k == "if": return ("if", s[1], rewrite(t, s[2]), rewrite(t, s[3]))
        return s
    for t in p.tasks: p.tasks[t] = rewrite(t, p.tasks[t])
    return p.lines() + history_mixed(rng, p, sessions=rng.randint(3, 6), bu_prob=bu_prob), dict(no_abort_expected=True, failing_checkers=nfail)


def case_bu_fail(rng):
    """bottom-up histories (complete reporting) of programs whose resource checkers fail at validation time"""
    p = gen_program(rng, allow_wrote=True)
    for (t, r), c in list(p.rchk.items()):
        if r in p.sources and rng.random() < 0.6:
            p.rchk[(t, r)] = 10 + rng.randint(0, 3)

    def rewrite(t, s):
        k = s[0]
        if k == "read": return ("read", s[1], p.rchk.get((t, s[1]), s[2]), rewrite(t, s[3]))
        if k == "req": return ("req", s[1], s[2], rewrite(t, s[3]))
        if k in ("write", "wrote"): return (k, s[1], s[2], s[3], rewrite(t, s[4]))
        if k == "if": return ("if", s[1], rewrite(t, s[2]), rewrite(t, s[3]))
        return s
    for t in p.tasks: p.tasks[t] = rewrite(t, p.tasks[t])
    return p.lines() + history_bu(rng, p), dict(no_abort_expected=True)


def case_panic_only(rng, exact=False, bu_prob=0.4):
    """a task panic at any operation of any task of an otherwise well-formed program, guarded by a source value, followed
    by further sessions after the cause has or has not been removed."""
    p = gen_program(rng, exact=exact)
    t = rng.choice(sorted(p.tasks))
    guard = (rng.choice(p.sources), rng.randint(0, 3))
    # the guard reads its source with the checker the task already uses for it (one checker per target per execution)
    p.tasks[t] = inject(rng, p.tasks[t], lambda nv, rest: ("panic",), guard if rng.random() < 0.85 else None,
                        gchk=p.rchk.setdefault((t, guard[0]), 0))
    return p.lines() + history_mixed(rng, p, sessions=rng.randint(3, 6), cleannodes=True, bu_prob=bu_prob), dict(injected=f"panic in task {t} guard {guard}")


def case_panic_recover(rng, exact=False, bu_prob=0.3):
    """abort, repair, rebuild, rebuild again with nothing changed: a guarded panic (the guard is a source the task has
    already read when it panics); the guard is set to the trigger value, a session requires the task (or a task above
    it), the guard is repaired (and other sources the aborted tasks may have read are changed or changed back), the
    same roots are required again, and once more with nothing changed; then the history goes on at random."""
    p = gen_program(rng, exact=exact)
    n = len(p.tasks)
    t = rng.choice(sorted(p.tasks))
    gsrc, gval = rng.choice(p.sources), rng.randint(0, 3)
    p.tasks[t] = inject(rng, p.tasks[t], lambda nv, rest: ("panic",), (gsrc, gval), gchk=p.rchk.setdefault((t, gsrc), 0))
    lines = [f"set {s} {rng.randint(0, 3)}" for s in p.sources]

    def sess(roots, bu=None):
        out = ["session"] + ([f"bu {' '.join(map(str, bu))}"] if bu else []) + [f"req {x}" for x in roots] + ["endsession",
               "clean " + " ".join(map(str, roots)), "cleannodes"]
        return out
    roots = sorted(set([rng.randint(1, t)] + ([t] if rng.random() < 0.5 else [])))
    if rng.random() < 0.5:                       # a good build first
        lines += [f"set {gsrc} {(gval + 1) % 4}"] + sess(roots)
    lines += [f"set {gsrc} {gval}"]
    others = [s for s in p.sources if s != gsrc]
    if others and rng.random() < 0.5: lines.append(f"set {rng.choice(others)} {rng.randint(0, 3)}")
    lines += sess(roots)                          # aborts if the guard is reached
    lines += [f"set {gsrc} {rng.choice([v for v in range(4) if v != gval])}"]
    ch = []
    if others and rng.random() < 0.6:
        ch = [rng.choice(others)]
        lines.append(f"set {ch[0]} {rng.randint(0, 3)}")
    lines += sess(roots, bu=([gsrc] + ch if rng.random() < bu_prob else None))   # repaired
    lines += sess(roots)                          # nothing changed
    if ch and rng.random() < 0.5:
        lines.append(f"set {ch[0]} {rng.randint(0, 3)}")   # maybe back to what the aborted run saw
        lines += sess(roots)
    for _ in range(rng.randint(0, 2)):
        c, changed = ext_changes(rng, p, k=rng.randint(0, 2), values=range(0, 4))
        lines += c
        roots = next_roots(rng, n, roots)
        lines += sess(roots, bu=(changed if changed and rng.random() < bu_prob else None))
    return p.lines() + lines, dict(injected=f"panic in task {t} guard {(gsrc, gval)}", shape="abort-repair-rebuild-rebuild")


def case_same_session_retry(rng):
    """C19: the caller catches the panic of an aborted build and goes on using the SAME session object (`retry`): more
    requires and bottom-up builds in that session, then new sessions after the cause has or has not been removed."""
    r = rng.random()
    if r < 0.6:
        p = gen_program(rng, exact=rng.random() < 0.5)
        n = len(p.tasks)
        t = rng.choice(sorted(p.tasks))
        gsrc, gval = rng.choice(p.sources), rng.randint(0, 3)
        p.tasks[t] = inject(rng, p.tasks[t], lambda nv, rest: ("panic",), (gsrc, gval), gchk=p.rchk.setdefault((t, gsrc), 0))
        prog, meta = p.lines(), dict(injected=f"panic in task {t} guard {(gsrc, gval)}")
        srcs = p.sources
    else:
        body, meta = rng.choice([case_hidden, case_overlap, case_cycle])(rng)
        prog = [l for l in body if l.startswith("task ")]
        n = max(int(l.split()[1]) for l in prog)
        srcs = sorted({int(l.split()[1]) for l in body if l.startswith("set ")}) or [1]
        gsrc, gval, t = srcs[0], rng.randint(0, 3), rng.randint(1, n)
    lines = [f"set {s} {rng.randint(0, 3)}" for s in srcs]
    roots = sorted(set([rng.randint(1, max(1, t))] + ([t] if rng.random() < 0.5 else [])))
    if rng.random() < 0.5: lines += [f"set {gsrc} {(gval + 1) % 4}", "session"] + [f"req {x}" for x in roots] + ["endsession", "cleannodes"]
    lines += [f"set {gsrc} {gval}"]
    changed = [gsrc]
    for _ in range(rng.randint(1, 3)):
        lines.append("session")
        ops = []
        if rng.random() < 0.35: ops.append("bu " + " ".join(map(str, changed)))
        ops += [f"req {x}" for x in roots]
        for o in ops: lines += [o, "retry"]
        for _ in range(rng.randint(1, 3)):
            q = rng.random()
            if q < 0.5: lines += [f"req {rng.choice(roots)}", "retry"]
            elif q < 0.8: lines += [f"req {rng.randint(1, n)}", "retry"]
            else: lines += ["bu " + " ".join(map(str, changed)), "retry"]
        lines += ["endsession", "cleannodes"]
        c, changed = ext_changes(rng, Prog_sources(srcs), k=rng.randint(0, 2), values=range(0, 4))
        if rng.random() < 0.5: c.append(f"set {gsrc} {rng.choice([v for v in range(4) if v != gval])}"); changed = sorted(set(changed + [gsrc]))
        lines += c
        if not changed: changed = [gsrc]
    lines += ["session"] + [f"req {x}" for x in roots] + ["endsession", "cleannodes"]
    return prog + lines, dict(meta, shape="same-session retry")


class Prog_sources:
    """minimal stand-in for `Prog` where only the sources matter (ext_changes)"""
    def __init__(self, sources): self.sources, self.generated = list(sources), {}


def case_aborted_writer(rng):
    """C20/C06/C19: a task writes a generated resource and is then aborted (a task it requires panics); the cause is removed;
    later builds reach the aborted writer again — directly, through a task that newly requires it, top-down or bottom-up,
    with or without a reader of the resource in between.  Its own leftovers must not make it abort."""
    G = rng.choice([10, 110]); S, X, T = 1, rng.choice([2, 102]), 3
    W, P, R, Q = 2, 4, 1, 3
    wk = rng.choice(["write", "write", "wrote"])
    pre = rng.choice(["", f"read {S} 0 "])
    nv = 1 if pre else 0
    lines = [f"task {W} {pre}{wk} {G} 0 some " + (f"+ v 0 k 1" if pre else "k 5") + f" req {P} {rng.choice([0, 4])} ret " + (f"v {nv}" if rng.random() < 0.5 else "k 1"),
             f"task {P} read {X} 0 if = v 0 k 1 panic ret v 0",
             f"task {R} read {T} 0 if = v 0 k 1 req {W} {rng.choice([0, 4])} ret + v 1 k 10 ret k 0"]
    if rng.random() < 0.5:
        lines.append(f"task {Q} req {W} 0 read {G} 0 ret + v 0 v 1")      # a legitimate reader of G
    n = Q if len(lines) == 4 else P
    hist = [f"set {S} {rng.randint(0, 3)}", f"set {X} 0", f"set {T} 0"]
    if rng.random() < 0.6: hist += ["session", f"req {R}"] + ([f"req {W}"] if rng.random() < 0.5 else []) + ["endsession", "cleannodes"]
    hist += [f"set {X} 1"] + ([f"set {S} {rng.randint(4, 6)}"] if rng.random() < 0.5 else [])
    hist += ["session"] + ([f"bu {X}"] if rng.random() < 0.3 else []) + [f"req {W}", "endsession", "cleannodes"]       # W writes, then is aborted
    hist += [f"set {X} 0", f"set {T} 1"]
    if rng.random() < 0.4: hist += [f"set {S} {rng.randint(0, 6)}"]
    for _ in range(rng.randint(1, 3)):
        hist.append("session")
        if rng.random() < 0.6: hist.append(f"bu {X} {T}" + (f" {S}" if rng.random() < 0.5 else ""))
        roots = rng.sample([R, W] + ([Q] if n == Q else []), rng.randint(1, 2))
        hist += [f"req {t}" for t in roots] + ["endsession", "cleannodes"]
        if rng.random() < 0.5: hist.append(f"set {T} {rng.randint(0, 1)}")
        if rng.random() < 0.3: hist.append(f"set {S} {rng.randint(0, 6)}")
    return sorted(lines, key=lambda l: int(l.split()[1])) + hist, dict(uses_wrote=(wk == "wrote"), injected=f"panic in task {P} guard ({X}, 1)")


def case_panic(rng):
    """C19: a panic at any operation of any task, or a diagnosed violation, followed by further sessions after the
    cause has or has not been removed."""
    r = rng.random()
    if r < 0.5:
        return case_panic_only(rng)
    f = rng.choice([case_hidden, case_overlap, case_cycle])
    body, meta = f(rng)
    # add the from-scratch build of all known tasks after every reference build
    out = []
    for l in body:
        out.append(l)
        if l.startswith("clean "): out.append("cleannodes")
    return out, meta


def case_roles(rng):
    """C20: who writes a resource, who reads it and who requires whom depends on a switch resource."""
    sw = 1
    variant = rng.choice(["writer", "reader", "require", "emit", "emit"])
    lines = []
    if variant == "writer":
        # W1 writes g while sw=0, W2 while sw=1; R requires the current writer and reads g
        lines += ["task 2 read 1 0 if = v 0 k 0 write 10 0 some k 7 ret k 1 ret k 0",
                  "task 3 read 1 0 if = v 0 k 1 write 10 0 some k 8 ret k 1 ret k 0",
                  "task 1 read 1 0 if = v 0 k 0 req 2 4 read 10 0 ret v 2 req 3 4 read 10 0 ret v 2"]
        roots = [1, 2, 3]
    elif variant == "reader":
        # sw=0: X reads r (a plain source then); sw=1: W writes r and X no longer reads it
        lines += ["task 1 read 1 0 if = v 0 k 0 read 5 0 ret v 1 ret k 0",
                  "task 2 read 1 0 if = v 0 k 1 write 5 0 some k 9 ret k 1 ret k 0"]
        roots = [1, 2]
    elif variant == "emit":
        # state 0: Emit(2) requires Gen(3), Gen writes MK(10); state 1: Gen writes nothing, Emit writes MK(10) itself;
        # Top(1) requires Emit only in state 1.  Exactly one writer and no cycle in every state.
        lines += ["task 3 read 1 0 if = v 0 k 0 write 10 0 some k 7 ret k 1 ret k 0",
                  "task 2 read 1 0 if = v 0 k 0 req 3 4 ret k 2 write 10 0 some k 8 ret k 3",
                  "task 1 read 1 0 if = v 0 k 0 ret k 9 req 2 0 ret + v 1 k 1"]
        roots = [1, 2, 3]
    else:
        # sw=0: A requires B; sw=1: B requires A
        lines += ["task 1 read 1 0 if = v 0 k 0 req 2 0 ret + v 1 k 1 ret k 5",
                  "task 2 read 1 0 if = v 0 k 1 req 1 0 ret + v 1 k 1 ret k 6"]
        roots = [1, 2]
    hist = ["set 1 0", "set 5 3"]
    for _ in range(rng.randint(2, 5)):
        rs = [rng.choice(roots) for _ in range(rng.randint(1, 2))]
        hist.append("session")
        if rng.random() < (0.6 if variant == "emit" else 0.3): hist.append("bu 1")
        hist += [f"req {t}" for t in rs] + ["endsession", "cleannodes"]
        hist.append(f"set 1 {rng.randint(0, 1)}")
    return lines + hist, dict(role_change=variant)


def case_partial_td_then_bu(rng):
    """C03 finding K1: a top-down session that re-executes a task without visiting all its requirers, followed by a
    bottom-up build that is told every changed resource."""
    p = gen_program(rng, writes=False)
    n = len(p.tasks)
    lines = [f"set {s} {rng.randint(0, 3)}" for s in p.sources]
    lines += ["session"] + [f"req {t}" for t in range(1, n + 1)] + ["endsession"]
    ch, changed = ext_changes(rng, p, k=rng.randint(1, 3), values=range(0, 4))
    lines += ch
    lines += ["session", f"req {rng.randint(1, n)}", "endsession"]
    lines += ["session", "bu " + " ".join(map(str, changed or p.sources)), "endsession", "session", "reqknown", "endsession", "cleanknown"]
    return p.lines() + lines, dict(partial_td_before_bu=True)


def case_multichecker(rng):
    """C08 finding K2: several dependencies on one target with different checkers or kinds."""
    p = gen_program(rng, writes=False)
    t = rng.choice(sorted(p.tasks))
    s = rng.choice(p.sources)
    c1, c2 = rng.sample([0, 1, 2, 3], 2)
    p.tasks[t] = ("read", s, c1, ("read", s, c2, shift(p.tasks[t], 0, 2)))
    if t < len(p.tasks):
        j = rng.randint(t + 1, len(p.tasks)); o1, o2 = rng.sample([0, 3, 4, 5], 2)
        p.tasks[t] = ("req", j, o1, ("req", j, o2, shift(p.tasks[t], 0, 2)))
    return p.lines() + history_td(rng, p), dict(multi_checker=True)


def case_bu_dense(rng):
    """C04: many scheduled tasks at once (every source changes in every round), requires of already scheduled tasks in
    the middle of a build (require_scheduled_now with >= 3 queued tasks), value-dependent requires that flip."""
    p = gen_program(rng, ntasks=rng.randint(7, 12), exact=rng.random() < 0.5, writes=rng.random() < 0.4)
    n = len(p.tasks)
    # add conditional requires of low-numbered tasks to high-numbered ones guarded by a source value, so that re-executing
    # tasks newly require tasks that are scheduled themselves
    for t in sorted(p.tasks)[: n // 2]:
        if rng.random() < 0.7:
            u = rng.randint(t + 1, n)
            src = rng.choice(p.sources)
            p.tasks[t] = inject(rng, p.tasks[t], binder("req", u, p.ochk.setdefault((t, u), rng.choice([0, 0, 4]))), (src, rng.randint(0, 2)),
                                gchk=p.rchk.setdefault((t, src), 0))
    lines = [f"set {s} {rng.randint(0, 2)}" for s in p.sources]
    lines += ["session"] + [f"req {t}" for t in range(1, n + 1)] + ["endsession"]
    for _ in range(rng.randint(2, 4)):
        changed = []
        for s in p.sources:
            if rng.random() < 0.85:
                lines.append(f"set {s} {rng.randint(0, 2)}"); changed.append(s)
        if not changed:
            lines.append(f"set {p.sources[0]} {rng.randint(3, 5)}"); changed.append(p.sources[0])
        rng.shuffle(changed)
        lines += ["session", "bu " + " ".join(map(str, changed))]
        for _ in range(rng.randint(0, 2)): lines.append(f"req {rng.randint(1, n)}")
        lines += ["endsession", "session", "reqknown", "endsession", "cleanknown"]
    return p.lines() + lines


def case_bu_chain(rng):
    """C03/C04: chains C1 <- C2 <- ... <- Cd above a changing source, and switch tasks that newly require (or stop
    requiring) a chain node when their switch source flips in the SAME batch of changes: a re-executed task requires an
    existing task whose affected dependency lies two or more levels below it (require_scheduled_now has to run the
    levels in between as they become scheduled); observers above the switch tasks; optional generated resource."""
    d = rng.randint(2, 4)
    ns = rng.randint(1, 3)
    obs = rng.random() < 0.5
    A = rng.choice([1, 101])
    W = rng.sample([2, 102, 3, 103, 4], ns)
    B = 5                                     # a second source some chain nodes read
    first = ns + (1 if obs else 0) + 1
    chain = list(range(first, first + d))
    gen = rng.random() < 0.3
    G = rng.choice([10, 110])
    oc = lambda: rng.choice([0, 0, 0, 0, 1, 4, 5])
    rc = lambda: rng.choice([0, 0, 0, 0, 1])
    lines, t = [], 1
    sw_tasks = []
    if obs:
        t += 1
    for j in range(ns):
        x = rng.choice(chain)
        val = rng.randint(0, 1)
        then = f"req {x} {oc()} ret + v 1 k {10 * (j + 1)}"
        if rng.random() < 0.3 and len(chain) > 1:
            y = rng.choice([c for c in chain if c != x])
            then = f"req {x} {oc()} req {y} {oc()} ret + v 1 v 2"
        els = f"ret k {j}" if rng.random() < 0.7 else f"req {rng.choice(chain)} {oc()} ret v 1"
        lines.append(f"task {t} read {W[j]} 0 if = v 0 k {val} {then} {els}")
        sw_tasks.append(t); t += 1
    if obs:
        reqs = rng.sample(sw_tasks, min(len(sw_tasks), rng.randint(1, 2)))
        body = " ".join(f"req {u} {oc()}" for u in reqs)
        ret = "v 0" if len(reqs) == 1 else "+ v 0 v 1"
        lines.insert(0, f"task 1 {body} ret {ret}")
    for i, c in enumerate(chain):
        last = i == d - 1
        if last:
            if gen: lines.append(f"task {c} read {A} 0 write {G} 0 some + v 0 k 1 ret % v 0")
            else: lines.append(f"task {c} read {A} {rc()} ret " + rng.choice(["v 0", "+ v 0 k 1", "% v 0"]))
        else:
            nxt = chain[i + 1]
            r = rng.random()
            if gen and i == d - 2:
                lines.append(f"task {c} req {nxt} {oc()} read {G} 0 ret + v 0 v 1")
            elif r < 0.25:
                lines.append(f"task {c} read {B} {rc()} req {nxt} {oc()} ret + v 0 v 1")
            elif r < 0.4:
                lines.append(f"task {c} req {nxt} {oc()} ret % v 0")
            else:
                lines.append(f"task {c} req {nxt} {oc()} ret + v 0 k {i + 1}")
    n = chain[-1]
    hist = [f"set {A} {rng.randint(0, 3)}", f"set {B} {rng.randint(0, 3)}"] + [f"set {w} {rng.randint(0, 1)}" for w in W]
    first_roots = list(range(1, n + 1))
    if rng.random() < 0.3: rng.shuffle(first_roots)
    hist += ["session"] + [f"req {x}" for x in first_roots] + ["endsession"]
    for _ in range(rng.randint(2, 4)):
        changed = []
        if rng.random() < 0.85: hist.append(f"set {A} {rng.randint(0, 5)}"); changed.append(A)
        if rng.random() < 0.3: hist.append(f"set {B} {rng.randint(0, 5)}"); changed.append(B)
        for w in W:
            if rng.random() < 0.6: hist.append(f"set {w} {rng.randint(0, 1)}"); changed.append(w)
        if gen and rng.random() < 0.15: hist.append(f"set {G} {rng.randint(0, 9)}"); changed.append(G)
        if not changed: hist.append(f"set {A} {rng.randint(6, 9)}"); changed.append(A)
        rng.shuffle(changed)
        hist += ["session", "bu " + " ".join(map(str, changed))]
        for _ in range(rng.randint(0, 2)): hist.append(f"req {rng.randint(1, n)}")
        hist += ["endsession", "session", "reqknown", "endsession", "cleanknown"]
    return sorted(lines, key=lambda l: int(l.split()[1])) + hist


def case_bu_wide(rng):
    """C04: a WIDE queue — k pairs M_i -> L_i that are all scheduled directly by one changed source (every M_i also reads
    it), and switch tasks that newly require one of the queued tasks in the middle of the build (require_scheduled_now
    removes an element from the middle of the queue): the remaining queued tasks must still run dependencies first."""
    k = rng.randint(3, 6)
    nsw = rng.randint(1, 2)
    S = rng.choice([1, 101])
    W = [2, 102][:nsw]
    first = nsw + 1
    M = [first + 2 * i for i in range(k)]
    L = [first + 2 * i + 1 for i in range(k)]
    oc = lambda: rng.choice([0, 0, 0, 5])
    lines = []
    for j in range(nsw):
        tg = rng.sample(M + L, rng.randint(1, 2))
        then = " ".join(f"req {t} {oc()}" for t in tg) + " ret " + ("v 1" if len(tg) == 1 else "+ v 1 v 2")
        els = "ret k 0" if rng.random() < 0.7 else f"req {rng.choice(M + L)} {oc()} ret v 1"
        lines.append(f"task {j + 1} read {W[j]} 0 if = v 0 k 1 {then} {els}")
    for i in range(k):
        own = rng.random() < 0.25
        src = 10 + i if own else S
        lines.append(f"task {L[i]} read {src} {rng.choice([0, 0, 1])} ret " + rng.choice(["v 0", "+ v 0 k 1", "% v 0"]))
        if rng.random() < 0.8: lines.append(f"task {M[i]} read {S} 0 req {L[i]} {oc()} ret + v 0 v 1")
        else: lines.append(f"task {M[i]} req {L[i]} {oc()} ret + v 0 k {i}")
    n = L[-1]
    meta = {}
    if rng.random() < 0.4:
        # a role-changing pair in the same queue: P generates G only while S is even; R requires P and reads G while S is
        # even, and reads G as a plain source otherwise.  Correct order (P before R) drops P's write edge before R reads.
        R, P, G = n + 1, n + 2, rng.choice([20, 120])
        lines.append(f"task {R} read {S} 0 if = % v 0 k 0 req {P} {rng.choice([0, 4])} read {G} 0 ret + v 1 k 1 read {G} 0 ret k 7")
        lines.append(f"task {P} read {S} 0 if = % v 0 k 0 write {G} 0 some v 0 ret k 1 ret k 2")
        n = P
        meta = dict(role_change="producer stops writing")
    hist = [f"set {S} {rng.randint(0, 3)}"] + [f"set {w} 0" for w in W] + [f"set {10 + i} {rng.randint(0, 3)}" for i in range(k)]
    order = list(range(1, n + 1))
    if rng.random() < 0.5: rng.shuffle(order)         # creation order decides the ranks
    hist += ["session"] + [f"req {x}" for x in order] + ["endsession"]
    for _ in range(rng.randint(2, 4)):
        changed = [S]
        hist.append(f"set {S} {rng.randint(0, 6)}")
        for w in W:
            if rng.random() < 0.7: hist.append(f"set {w} {rng.randint(0, 1)}"); changed.append(w)
        for i in range(k):
            if rng.random() < 0.2: hist.append(f"set {10 + i} {rng.randint(0, 5)}"); changed.append(10 + i)
        rng.shuffle(changed)
        hist += ["session", "bu " + " ".join(map(str, changed))]
        for _ in range(rng.randint(0, 1)): hist.append(f"req {rng.randint(1, n)}")
        hist += ["endsession", "cleannodes", "session", "reqknown", "endsession", "cleanknown"]
    return sorted(lines, key=lambda l: int(l.split()[1])) + hist, meta


def case_erosion(rng):
    """C05: chains reader -> mid -> ... -> generator in which an intermediate task drops its require (same output) so that
    the reader keeps a read of a generated resource without a path to the generator (finding K4), followed by builds
    that re-execute the generator, the reader or the intermediate task in various orders and modes."""
    k = rng.randint(1, 3)                      # number of intermediate tasks
    gen_t = k + 2
    g = rng.choice([10, 110])
    sw = [rng.choice([1, 101]) for _ in range(k)]      # switch resource of each intermediate task
    gin = rng.choice([5, 105])                  # input of the generator
    lines = []
    # reader: requires mid_1 then reads g
    lines.append(f"task 1 req 2 {rng.choice([0, 4])} read {g} 0 ret + v 0 v 1")
    for i in range(k):
        t, nxt = i + 2, i + 3
        # intermediate task: requires the next one only while its switch is 0; constant output
        lines.append(f"task {t} read {sw[i]} 0 if = v 0 k 0 req {nxt} 4 ret k 7 ret k 7")
    wk = rng.choice(["write", "write", "wrote"])
    lines.append(f"task {gen_t} read {gin} 0 {wk} {g} 0 some + v 0 k 1 ret k 1")
    hist = [f"set {s} 0" for s in sorted(set(sw))] + [f"set {gin} {rng.randint(0, 3)}"]
    hist += ["session", "req 1", "endsession", "cleannodes"]
    for _ in range(rng.randint(2, 5)):
        r = rng.random()
        changed = []
        if r < 0.5:
            s = rng.choice(sw); hist.append(f"set {s} {rng.randint(0, 1)}"); changed.append(s)
        if r > 0.3:
            hist.append(f"set {gin} {rng.randint(0, 5)}"); changed.append(gin)
        hist.append("session")
        if rng.random() < 0.4 and changed: hist.append("bu " + " ".join(map(str, changed)))
        for _ in range(rng.randint(1, 2)):
            hist.append(f"req {rng.choice([1, 1, gen_t, rng.randint(2, gen_t)])}")
        hist += ["endsession", "cleannodes"]
    return lines + hist, dict(uses_wrote=(wk == "wrote"), erosion=True)


# ------------------------------------------------------------------ exhaustive small scope (thorough tier)
def exhaustive_small(max_cases=None):
    """EVERY program of a small scope x EVERY history of a small scope (well-formed programs only, so every oracle of the
    well-formed streams applies): 3 tasks (task 3 a leaf, task 2 a leaf or a task over 3, task 1 a task over 2 and/or 3),
    two sources S=1 (data) and W=2 (switch), one generated resource G=10 written by the leaf, output checkers
    {Equals, AlwaysConsistent, ParityOut}; histories: initial build of task 1, then two rounds of one external change
    each (S or W, to one of two values), each round built top-down (require 1) or bottom-up (changed set reported, then
    every known task required)."""
    S, W, G = 1, 2, 10
    leaves = [f"read {S} 0 ret v 0", f"read {S} 1 ret % v 0", "ret k 1", f"read {S} 0 write {G} 0 some v 0 ret k 1",
              f"read {S} 0 write {G} 0 some % v 0 ret v 0"]

    def mids(t, targets, gen_by):
        out = []
        for u in targets:
            for c in (0, 4, 5):
                out.append(f"req {u} {c} ret v 0")
                out.append(f"read {W} 0 if = v 0 k 1 req {u} {c} ret + v 1 k 5 ret k 0")
                if gen_by == u:
                    out.append(f"req {u} {c} read {G} 0 ret + v 0 v 1")
                    out.append(f"read {W} 0 if = v 0 k 1 req {u} {c} read {G} 0 ret v 2 ret k 0")
        if len(targets) == 2:
            a, b = targets
            for c in (0, 4):
                out.append(f"req {a} {c} req {b} 0 ret + v 0 v 1")
                out.append(f"req {a} 0 if = v 0 k 1 req {b} {c} ret v 1 ret k 7")
        return out
    changes = [f"set {S} 0", f"set {S} 2", f"set {W} 0", f"set {W} 1"]
    n = 0
    for l3 in leaves:
        g3 = 3 if "write" in l3 else None
        for t2 in leaves[:3] + mids(2, [3], g3):
            for t1 in mids(1, [2, 3] if True else [2], g3):
                prog = [f"task 1 {t1}", f"task 2 {t2}", f"task 3 {l3}"]
                for c1 in changes:
                    for c2 in changes:
                        for m1 in ("td", "bu"):
                            for m2 in ("td", "bu"):
                                h = [f"set {S} 1", f"set {W} 1", "session", "req 1", "endsession", "clean 1"]
                                for ch, m in ((c1, m1), (c2, m2)):
                                    r = ch.split()[1]
                                    h.append(ch)
                                    if m == "td": h += ["session", "req 1", "endsession", "clean 1"]
                                    else: h += ["session", f"bu {r}", "endsession", "session", "reqknown", "endsession", "cleanknown"]
                                yield prog + h
                                n += 1
                                if max_cases and n >= max_cases: return
