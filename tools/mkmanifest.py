#!/usr/bin/env python3
"""Regenerates /verif/MANIFEST.json from the table below (run after editing)."""
import json, os
VERIF = os.path.dirname(os.path.dirname(os.path.abspath(__file__)))
ALL = [f"C{i:02d}" for i in range(1, 21)]

TB = ("Trusted: Lean 4.33 kernel; axioms propext/Classical.choice/Quot.sound only (audited by #print axioms on every run); "
      "the hand-written model is tied to /repo by the differential correspondence run (Rust harness + Lean driver + Python comparison), "
      "so behaviour the generators do not reach is not tied. ")

CORR = ("differential correspondence: the same generated cases (VERIF_SEED) run on the real crates (in-process Rust harness, rebuilt from /repo's working tree) "
        "and on the Lean model (compiled driver); property-specific projection compared; executable property oracle evaluated on the real crates' observations; "
        "ddmin shrinking; known findings matched by pattern. ")

def C(text, note, technique, design):
    return dict(text=text, note=TB + note, technique=technique, design=design)

CLAIMS = {
 "C01": C("Lean: every output returned by a top-down Session::require in any history equals the from-scratch semantics. Write-free programs: C01_sources (histories of external changes and top-down sessions, any aborted), C01_sources_mixed / C01_mixed_equals_clean_build (histories that also contain bottom-up builds, told incomplete change sets or aborted; hypothesis OReflexive, shown necessary by a kernel-checked counterexample). Programs WITH writes and static roles: C01_full_history_equals_clean_build (outputs AND contents of every resource equal the from-scratch build, external edits of generated resources included; WriteExact shown necessary), over mixed histories with bottom-up builds under Reflexive (C01_full_mixed_history; necessary: kernel-checked counterexample = finding K8), and for transitive static roles — readers reaching the generator through relays — C01_trans_history_equals_clean_build. The hypotheses are evaluated on every generated program by verified Boolean checkers (C01_scripts, C01_trans_scripts). Store invariants Faithful/FaithfulO preserved by every function also on abort. " + CORR + "Oracle: every session's outputs and resource contents equal a from-scratch build run on the real crates.",
          "Role-changing programs with writes: no theorem (findings K3/K4); failing stampers excluded by StampTotal (finding K5); stale output after an aborted bottom-up build with a failing checker (finding K8, reproduced on the real crates).", "Lean 4 invariant/refinement proof over hand-written model + differential correspondence + clean-build oracle", "§0.1, §5 C01"),
 "C02": C("Lean: at most one execution per task per session in every history also when the session aborts (C02_exec_once), every execution justified by a failed/erroring check event or a missing output (C02_exec_justified_trace, unconditional), idempotence: a repeated require/session with nothing changed executes nothing and returns the same outputs, for write-free programs (C02_idempotent*) and for programs with writes under static roles (C02_idempotent_writes*, after any history), validation in creation order (C11_outgoing_complete + C08_recorded_eq_performed), minimality (C02_minimal: every executed task is demanded by the from-scratch build). " + CORR + "Oracle: <=1 execution per task per session, every execution preceded by its first require or a failed dependency check, nothing executes on an unchanged re-require or repeated session, validation order = recorded creation order, exact-checker executions are a subset of the from-scratch build's.",
          "idempotence/minimality theorems carry Reflexive / static-role hypotheses.", "Lean 4 proof over hand-written model + differential correspondence", "§0.1, §5 C02"),
 "C03": C("Lean: after a returning bottom-up build whose change set covers every rejected read/write stamp (Reported) from a state with ShallowReq and NoOrphan, the queue is empty, every known task is consistent, requiring any of them (same or new session) executes nothing and returns the from-scratch output; the hypotheses are re-established for the next round (any number of rounds). Write-free programs: C03_closure, C03_sources, C03_chain; programs WITH writes under static roles: C03_closure_writes, C03_sources_writes, C03_chain_writes, C03_rounds_writes (outputs = Den, contents = overlay). ShallowReq shown necessary: finding K1 (kernel-checked). " + CORR + "Oracle: after update_affected_tasks, requiring every known task executes nothing and returns from-scratch outputs.",
          "K1 (partial top-down session before the bottom-up build) is a genuine defect recorded in known_findings.json.", "Lean 4 closure-invariant proof over hand-written model + differential correspondence", "§0.1, §5 C03"),
 "C04": C("Lean: the queue as a pure data structure for unbounded contents (pop = greatest rank, popped task has no queued dependency, pop_least spec, swap_remove harmless, drain order); every execution of a bottom-up build is justified (C04_exec_justified: scheduled earlier in the build, or no output; C04_schedule_justified: every schedule event directly follows a failed/erroring check of a dependency of that task; C04_consistent_not_executed) for ALL programs; at most once per build (C04_bu_once, C04_bu_once_writes) under NoOrphan (necessary: finding K7). " + CORR + "Oracle: every bottom-up execution is scheduled or newly required, at most once, never before a scheduled dependency.",
          "K7 (double execution after an abort) recorded in known_findings.json.", "Lean 4 proof (queue, rank order, trace justification) + differential correspondence", "§0.1, §5 C04"),
 "C05": C("Lean: exact characterisation of when read/write/written_to abort with a hidden dependency (iff-theorems), abort before modification for Context::write, creation-time invariant, and the global clause for static-role programs over ALL histories (C05_static_noHidden_history); every step except reset_task keeps NoHidden. " + CORR + "Oracle: every reader of a generated resource reaches its writer in the store dump of every build that returned; content unchanged at an aborted write.",
          "global clause false for role-changing programs on the real code (K4, kernel-checked).", "Lean 4 proof of the detection logic and invariant + differential correspondence", "§0.1, §5 C05"),
 "C06": C("Lean: overlap abort exactly when another writer is recorded, before the resource is modified; at most one writer per resource after every history whatever aborted (C06_single_writer_history); no self-overlap. " + CORR + "Oracle: <=1 writer per resource in every store dump, content unchanged at abort, well-formed programs never report an overlap.",
          "", "Lean 4 proof of the detection logic and single-writer invariant + differential correspondence", "§0.1, §5 C06"),
 "C07": C("Lean: executing-stack invariant (frames pairwise joined by dependency paths) preserved by every top-down AND bottom-up function also on abort; requiring a task on the stack aborts exactly cyclic with the state unchanged; no re-entry; bounded stack; no value on a cycle (C07_*, C07_bu_*); bottom-up builds never end in an internal BUG abort. " + CORR + "Oracle: statically cyclic programs abort with a cyclic-dependency error, no task is entered twice, no stack overflow/timeout.",
          "", "Lean 4 invariant proof + differential correspondence", "§0.1, §5 C07"),
 "C08": C("Lean: the recorded dependencies of a task are exactly the dependency operations of its latest execution with checker and stamp (C08_recorded_eq_performed(_bu), C08_recorded_eq_declared), reset clears, nothing left over, dropped dependencies never trigger. " + CORR + "Oracle: store dump (hook) of every executed task equals the dependency operations of its latest execution.",
          "needs OneChecker; otherwise finding K2 (kernel-checked).", "Lean 4 proof + differential correspondence on the store dump", "§0.1, §5 C08"),
 "C09": C("Lean: stamp provenance (reader content / content after the write / returned output) and verdict = own checker on own stamp, scheduling iff own checker rejects, for arbitrary checker semantics. " + CORR + "Instrumented harness checkers.",
          "", "Lean 4 decision-logic theorems + differential correspondence", "§0.1, §5 C09"),
 "C10": C("Lean: Dag.Inv is preserved by every operation (induction over all op sequences): ranks a bijection onto 1..n, every edge upward, acyclic; add_edge reports a cycle iff dst reaches src or src = dst; rejected insertion leaves the graph unchanged; DFS fuel proved sufficient. " + CORR + "Exhaustive small-scope op sequences; independent edge-set oracle.",
          "slotmap/hashlink/HashMap modelled as fresh ids/ordered lists/assoc lists; u32 ranks as Nat.", "Lean 4 invariant proof (Pearce-Kelly) + differential correspondence", "§0.1, §5 C10"),
 "C11": C("Lean: frame lemmas of every mutating operation, queries agree with the edge set, refinement to an edge-set specification incl. first-insertion order. " + CORR + "Complete public query surface compared after every operation; independent first-insertion-order oracle. Defect F1 found and repaired.",
          "", "Lean 4 refinement proof + differential correspondence", "§0.1, §5 C11"),
 "C12": C("Lean: five iff-theorems (check against the stamp of another output is consistent exactly when the documented relation holds), reflexivity, agreement of the build model's checker table with them. " + CORR + "Exhaustive over a 6-element Result domain x 5 checkers, also through OutputCheckerObj (hook).",
          "", "Lean 4 proof + exhaustive differential table", "§0.1, §5 C12"),
 "C13": C("Lean: path-state model of the file resource: three stamping routes agree, checker iff-theorems, reader left rewound, write creates/truncates/refuses directories, directory hash injective on name lists. " + CORR + "Real temporary files/directories with explicit mtimes (incl. same-size same-mtime rewrites). Defect F2 found and repaired.",
          "the OS (metadata, read_dir, stale handles) and SHA-256 (assumed injective) are modelled, not verified.", "Lean 4 proof over a path-state model + differential correspondence on a real file system", "§0.1, §5 C13"),
 "C14": C("Lean: refinement of TypeToAnyMap + global map + MapWriter to per-type key->value maps: read-your-writes, isolation between key/resource types, get_or_set_default spec, checker iff, stamping routes agree; the object flavour (type-erased keys/values, MapKeyObjToObj) refines a map keyed by (concrete type, value): aliasing iff eq_any, checker iff, isolation under any interleaving (C14_obj_*). " + CORR + "Independent per-type slot-map oracle, incl. zero-sized key and value types.",
          "HashMap modelled as duplicate-free association list (MapRes.WF).", "Lean 4 refinement proof + differential correspondence", "§0.1, §5 C14"),
 "C15": C("Lean: eq_any iff same (type, value); the store shares a node iff names are equal. " + CORR + "Five task types with identical Debug/Hash (newtypes, Box/Rc/Arc) and two resource types; outputs, executions, node counts, key equality compared.",
          "whether the Rust code keys on TypeId is established by the correspondence, the theorems are about the model.", "Lean 4 proof (thin) + differential correspondence", "§0.1, §5 C15"),
 "C16": C("Lean: the only hash-ordered iteration (the two DFS change sets) does not influence the result: reorder is invariant under permutation, addEdgeWith any enumeration = addEdge, queue pop order depends only on the set and the ranks. " + CORR + "Complete event stream compared, build histories and real-file checker histories; every case replayed in independent processes (fresh hash seeds).",
          "hash-seed behaviour itself is runtime; covered by the multi-process correspondence.", "Lean 4 proof of order-independence + differential correspondence + independent replays", "§0.1, §5 C16"),
 "C17": C("Lean: the trace of every session/build is balanced (aborted: a prefix of a balanced trace), execute_end carries the output, require_end the returned value, one start/end pair per execution; EventTracker stores exactly the recorded kinds since the last build_start with index = position; every helper iff its specification; composite delivers identical streams. " + CORR + "Oracle: nesting of start/end pairs, execute events = task-side log, require_end value = returned value, EventTracker contents. Defect F3 found and repaired.",
          "strict nesting under StampTotal (an Err from a stamp leaves a read/write start open, as the code does).", "Lean 4 proof + differential correspondence", "§0.1, §5 C17"),
 "C18": C("Lean: a checker error is reported, makes the dependency inconsistent (re-execution / scheduling), never aborts; errors = errors of the validation events. " + CORR + "Failing checkers at every position.",
          "", "Lean 4 proof + differential correspondence", "§0.1, §5 C18"),
 "C19": C("Lean: store well-formed after every history whatever aborted (C19_store_wf_history), no internal BUG abort in any later top-down session or bottom-up build (C19_no_bug_history_all, C07_bu_no_bug_history), later top-down sessions return from-scratch results after any mixed history with aborts (C19_results_after_abort_mixed; with writes under static roles: C01_full_history). " + CORR + "Panics injected at every operation, diagnosed violations, abort-repair-rebuild-rebuild histories; oracle: no BUG panic after an abort, results equal from-scratch results. Defect F4 found and repaired.",
          "spurious abort after an abort = findings K6 (cyclic) and K9b (hidden dependency after an aborted relay).", "Lean 4 invariant proof + differential correspondence", "§0.1, §5 C19"),
 "C20": C("Lean: no cyclic/hidden/overlap abort for static-role programs in any history, top-down and bottom-up (C20_static_no_abort); for transitive static roles (readers reaching the generator through relays) the store invariant holds after every history and the first abort of any history is never a diagnosed violation, nor any abort after task panics for prefix-shaped relays (C20_trans_*); the unrestricted statement is refuted by a kernel-checked counterexample that reproduces on the real crates (K9). " + CORR + "Role-change programs; oracle: an incremental abort implies the from-scratch build of all known tasks aborts.",
          "role-changing programs: finding K3 (three patterns, kernel-checked), no positive theorem; finding K9 after an aborted relay.", "Lean 4 invariant proof + differential correspondence", "§0.1, §5 C20"),
}

# properties whose Lean obligations are real theorems by now (the others are under construction)
READY = ["C01", "C02", "C03", "C04", "C05", "C06", "C07", "C08", "C09", "C10", "C11", "C12", "C13", "C14", "C15", "C16", "C17", "C18", "C19", "C20"]

def main():
    checks = []
    for p in ALL:
        if p not in READY: continue
        c = CLAIMS[p]
        checks.append(dict(
            property_id=p, quick_cmd=f"./check {p} quick", thorough_cmd=f"./check {p} thorough",
            evidence_file=f"/verif/evidence/{p}.json", replay_cmd_template=f"./check {p} --replay {{path}}",
            engine="lean-model+correspondence",
            level_claimed=dict(category="proof", text=c["text"], design_ref=c["design"]),
            level_note=c["note"], technique=c["technique"]))
    m = dict(
        version=1, setup_cmd="sh /verif/setup.sh",
        hooks=dict(guard="gohla_pie_verif (cargo feature of crate pie)",
                   enable="the harness depends on pie with features = [\"gohla_pie_verif\", \"file_hash_checker\"]",
                   baseline_off_cmd="cd /repo && cargo test --workspace --no-fail-fast --offline",
                   source_commits=["0dc7772", "1a52b04"], add_only=True),
        engines=[dict(name="lean-model+correspondence", path="/verif/lean, /verif/harness, /verif/tools",
                      serves_properties=[p for p in ALL if p in READY],
                      kind_free_text="Lean 4 model + theorems (lake build, #print axioms audit); Rust harness running the same cases on the real crates; Python comparison, oracles, shrinking")],
        checks=checks,
        notes="See DESIGN.md (section 0 as built, 0.1 per-property theorems, 6.2 findings K1-K9, 10 seeded changes and false-alarm corpus). Violations found on the unchanged tree and repaired are listed in known_findings.json (status fixed); known findings K1-K9 (status known) are reported as KNOWN-FINDING lines.",
        not_applicable=[dict(property_id=p, reason="not claimed yet: the correspondence check and oracle run (./check " + p + " quick) but its Lean property theorems are still being proved; it will be claimed when they are, see DESIGN.md §5")
                        for p in ALL if p not in READY],
    )
    json.dump(m, open(os.path.join(VERIF, "MANIFEST.json"), "w"), indent=1)

main()
