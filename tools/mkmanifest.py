#!/usr/bin/env python3
"""Regenerates /verif/MANIFEST.json from the table below (run after editing)."""
import json, os
VERIF = os.path.dirname(os.path.dirname(os.path.abspath(__file__)))
ALL = [f"C{i:02d}" for i in range(1, 21)]

TB = ("Trusted: Lean 4.33 kernel; axioms propext/Classical.choice/Quot.sound only (audited by #print axioms on every run); "
      "the hand-written model is tied to /repo by the differential correspondence run (Rust harness + Lean driver + Python comparison), "
      "so behaviour the generators do not reach is not tied. ")

CLAIMS = {
 "C10": dict(
   text="Lean theorems about the executable model of graph/src/lib.rs (all op sequences: invariant by induction) + differential correspondence of every op result/rank/edge set against pie_graph::DAG on generated and exhaustively enumerated small-scope op sequences, + independent edge-set oracle on the real crate.",
   note=TB + "slotmap/hashlink/HashMap modelled as fresh ids/ordered lists/assoc lists; u32 ranks as Nat.",
   technique="Lean 4 invariant proof over a hand-written model + differential correspondence", design="§5 C10"),
 "C11": dict(
   text="Lean theorems relating every query of the model to its edge set + differential comparison of the complete public query surface after every operation against pie_graph::DAG, + independent edge-set specification oracle (first-insertion order, data, reachability, removal exactness).",
   note=TB + "Defect F1 (re-added edge moved to back) found by this check and repaired (fix: commit 9236258).",
   technique="Lean 4 refinement lemmas over a hand-written model + differential correspondence", design="§5 C11"),
}

def main():
    checks = []
    for p in ALL:
        if p not in CLAIMS: continue
        c = CLAIMS[p]
        checks.append(dict(
            property_id=p, quick_cmd=f"./check {p} quick", thorough_cmd=f"./check {p} thorough",
            evidence_file=f"/verif/evidence/{p}.json", replay_cmd_template=f"./check {p} --replay {{path}}",
            engine="lean-model+correspondence",
            level_claimed=dict(category="proof", text=c["text"], design_ref=c["design"]),
            level_note=c["note"], technique=c["technique"]))
    m = dict(
        version=1, setup_cmd="sh /verif/setup.sh",
        hooks=dict(guard="gohla_pie_verif (cargo feature of crate pie)",
                   enable="the harness depends on pie with features = [\"gohla_pie_verif\", \"file_hash_checker\"]",
                   baseline_off_cmd="cd /repo && cargo test --workspace --no-fail-fast --offline",
                   source_commits=[], add_only=True),
        engines=[dict(name="lean-model+correspondence", path="/verif/lean, /verif/harness, /verif/tools",
                      serves_properties=[p for p in ALL if p in CLAIMS],
                      kind_free_text="Lean 4 model + theorems (lake build, #print axioms audit); Rust harness running the same cases on the real crates; Python comparison, oracles, shrinking")],
        checks=checks,
        notes="See DESIGN.md. Violations found on the unchanged tree and repaired are listed in known_findings.json (status fixed).",
        not_applicable=[dict(property_id=p, reason="check under construction in this session (model and correspondence not yet built); will be claimed, see DESIGN.md §5")
                        for p in ALL if p not in CLAIMS],
    )
    json.dump(m, open(os.path.join(VERIF, "MANIFEST.json"), "w"), indent=1)

main()
