#!/usr/bin/env python3
"""Regenerates /verif/MANIFEST.json from the table below (run after editing)."""
import json, os
VERIF = os.path.dirname(os.path.dirname(os.path.abspath(__file__)))
ALL = [f"C{i:02d}" for i in range(1, 21)]

TB = ("Trusted: Lean 4.33 kernel; axioms propext/Classical.choice/Quot.sound only (audited by #print axioms on every run); "
      "the hand-written model is tied to /repo by the differential correspondence run (Rust harness + Lean driver + Python comparison), "
      "so behaviour the generators do not reach is not tied. ")

CORR = ("differential correspondence: the same generated cases (VERIF_SEED) run on the real crates (in-process Rust harness, rebuilt from /repo's working tree) "
        "and on the Lean model (compiled driver); property-specific projection compared; executable property oracle evaluated on the real crates' observations; "
        "ddmin shrinking; known findings matched by pattern. ")

def C(text, note, technique, design):
    return dict(text=text, note=TB + note, technique=technique, design=design)

CLAIMS = {
 "C01": C("Lean: soundness of top-down validation/execution w.r.t. a denotational evaluator for write-free programs over all histories (Faithful store invariant); local theorems for programs with writes. " + CORR + "Oracle: every session's outputs and resource contents equal a from-scratch build run on the real crates.",
          "Full statement for programs with writes is stated, proved only in parts (see evidence stated_not_proved).", "Lean 4 invariant/refinement proof over hand-written model + differential correspondence + clean-build oracle", "§5 C01"),
 "C02": C("Lean: once-per-session, justification of every execution, idempotence, validation in creation order. " + CORR + "Oracle: <=1 execution per task per session, every execution preceded by its first require or a failed dependency check, nothing executes on an unchanged re-require, validation order = recorded creation order, exact-checker executions are a subset of the from-scratch build's.",
          "minimality clause proved for write-free programs.", "Lean 4 proof over hand-written model + differential correspondence", "§5 C02"),
 "C03": C("Lean: bottom-up scheduling lemmas and the closure invariant under Reported and ShallowReq. " + CORR + "Oracle: after update_affected_tasks, requiring every known task executes nothing and returns from-scratch outputs. Known finding K1 (partial top-down session before the bottom-up build) recorded.",
          "C03_statement partial; K1 is a genuine defect recorded in known_findings.json.", "Lean 4 proof over hand-written model + differential correspondence", "§5 C03"),
 "C04": C("Lean: the queue as a pure data structure for unbounded contents (pop returns the greatest rank, popped task has no queued dependency, pop_least spec, swap_remove harmless, drain order). " + CORR + "Oracle: every bottom-up execution is scheduled or newly required, at most once, never before a scheduled dependency.",
          "at-most-once is covered by the oracle and the correspondence, not yet by a theorem.", "Lean 4 proof (queue + rank order) + differential correspondence", "§5 C04"),
 "C05": C("Lean: exact characterisation of when read/write/written_to abort with a hidden dependency, abort-before-modification for Context::write. " + CORR + "Oracle: every reader of a generated resource reaches its writer in the store dump of every build that returned; content unchanged at an aborted write. Known finding K4 (dependency erosion) recorded.",
          "global clause false on the real code (K4).", "Lean 4 proof of the detection logic + differential correspondence", "§5 C05"),
 "C06": C("Lean: overlap abort exactly when a writer is recorded, before the resource is modified. " + CORR + "Oracle: <=1 writer per resource in every store dump, content unchanged at abort, well-formed programs never report an overlap.",
          "", "Lean 4 proof of the detection logic + differential correspondence", "§5 C06"),
 "C07": C("Lean: cycle criterion of add_edge (C10) lifted to require; " + CORR + "Oracle: statically cyclic programs abort with a cyclic-dependency error, no task is entered twice, no stack overflow/timeout.",
          "", "Lean 4 proof + differential correspondence", "§5 C07"),
 "C08": C("Lean: graph frame lemmas (C11) give recorded = performed dependency operations. " + CORR + "Oracle: store dump (hook) of every executed task equals the dependency operations of its latest execution. Known finding K2 (several checkers on one target) recorded.",
          "needs OneChecker; K2 otherwise.", "Lean 4 proof + differential correspondence on the store dump", "§5 C08"),
 "C09": C("Lean: stamp provenance (reader content / content after the write / returned output) and verdict = own checker on own stamp, for arbitrary checker semantics. " + CORR + "Instrumented harness checkers.",
          "", "Lean 4 decision-logic theorems + differential correspondence", "§5 C09"),
 "C10": C("Lean: Dag.Inv is preserved by every operation (induction over all op sequences): ranks a bijection onto 1..n, every edge upward, acyclic; add_edge reports a cycle iff dst reaches src or src = dst; rejected insertion leaves the graph unchanged; DFS fuel proved sufficient. " + CORR + "Exhaustive small-scope op sequences; independent edge-set oracle.",
          "slotmap/hashlink/HashMap modelled as fresh ids/ordered lists/assoc lists; u32 ranks as Nat.", "Lean 4 invariant proof (Pearce-Kelly) + differential correspondence", "§5 C10"),
 "C11": C("Lean: frame lemmas of every mutating operation, queries agree with the edge set, refinement to an edge-set specification. " + CORR + "Complete public query surface compared after every operation; independent first-insertion-order oracle. Defect F1 found and repaired.",
          "", "Lean 4 refinement proof + differential correspondence", "§5 C11"),
 "C12": C("Lean: five iff-theorems (check against the stamp of another output is consistent exactly when the documented relation holds), reflexivity, agreement of the build model's checker table with them. " + CORR + "Exhaustive over a 6-element Result domain x 5 checkers, also through OutputCheckerObj (hook).",
          "", "Lean 4 proof + exhaustive differential table", "§5 C12"),
 "C13": C("Lean: path-state model of the file resource: three stamping routes agree, checker iff-theorems, reader left rewound, write creates/truncates/refuses directories. " + CORR + "Real temporary files/directories with explicit mtimes. Defect F2 found and repaired.",
          "the OS (metadata, read_dir, stale handles) and SHA-256 (assumed injective) are modelled, not verified.", "Lean 4 proof over a path-state model + differential correspondence on a real file system", "§5 C13"),
 "C14": C("Lean: refinement of TypeToAnyMap + global map + MapWriter to per-type key->value maps: read-your-writes, isolation between key/resource types, get_or_set_default spec, checker iff, stamping routes agree. " + CORR + "Independent per-type slot-map oracle.",
          "HashMap modelled as duplicate-free association list (MapRes.WF).", "Lean 4 refinement proof + differential correspondence", "§5 C14"),
 "C15": C("Lean: eq_any iff same (type, value); the store shares a node iff names are equal. " + CORR + "Five task types with identical Debug/Hash (newtypes, Box/Rc/Arc) and two resource types; outputs, executions, node counts, key equality compared.",
          "whether the Rust code keys on TypeId is established by the correspondence, the theorems are about the model.", "Lean 4 proof (thin) + differential correspondence", "§5 C15"),
 "C16": C("Lean: the only hash-ordered iteration (the two DFS change sets) does not influence the result: reorder is invariant under permutation, addEdgeWith any enumeration = addEdge, queue pop order depends only on the set and the ranks. " + CORR + "Complete event stream compared; thorough: independent processes (fresh hash seeds).",
          "hash-seed behaviour itself is runtime; covered by the multi-process correspondence.", "Lean 4 proof of order-independence + differential correspondence", "§5 C16"),
 "C17": C("Lean: EventTracker stores exactly the recorded kinds since the last build_start with index = position; every helper iff its specification; composite delivers identical streams. " + CORR + "Oracle: nesting of start/end pairs, execute events = task-side log, require_end value = returned value, EventTracker contents. Defect F3 found and repaired.",
          "trace-balance theorem over the interpreters pending (oracle covers it).", "Lean 4 proof + differential correspondence", "§5 C17"),
 "C18": C("Lean: a checker error is reported, makes the dependency inconsistent (re-execution / scheduling), never aborts; errors = errors of the validation events. " + CORR + "Failing checkers at every position.",
          "", "Lean 4 proof + differential correspondence", "§5 C18"),
 "C19": C("Lean: store well-formedness at every abort point. " + CORR + "Panics injected at every operation, diagnosed violations, further sessions with the cause removed or kept; oracle: no BUG panic after an abort, results equal from-scratch results. Defect F4 found and repaired.",
          "", "Lean 4 proof + differential correspondence", "§5 C19"),
 "C20": C("Lean: no abort for static-role programs. " + CORR + "Role-change programs; oracle: an incremental abort implies the from-scratch build of all known tasks aborts. Known finding K3 recorded.",
          "K3 is a genuine defect recorded in known_findings.json.", "Lean 4 proof + differential correspondence", "§5 C20"),
}

# properties whose Lean obligations are real theorems by now (the others are under construction)
READY = ["C01", "C02", "C03", "C04", "C05", "C06", "C07", "C08", "C09", "C10", "C11", "C12", "C13", "C14", "C15", "C16", "C17", "C18", "C19", "C20"]

def main():
    checks = []
    for p in ALL:
        if p not in READY: continue
        c = CLAIMS[p]
        checks.append(dict(
            property_id=p, quick_cmd=f"./check {p} quick", thorough_cmd=f"./check {p} thorough",
            evidence_file=f"/verif/evidence/{p}.json", replay_cmd_template=f"./check {p} --replay {{path}}",
            engine="lean-model+correspondence",
            level_claimed=dict(category="proof", text=c["text"], design_ref=c["design"]),
            level_note=c["note"], technique=c["technique"]))
    m = dict(
        version=1, setup_cmd="sh /verif/setup.sh",
        hooks=dict(guard="gohla_pie_verif (cargo feature of crate pie)",
                   enable="the harness depends on pie with features = [\"gohla_pie_verif\", \"file_hash_checker\"]",
                   baseline_off_cmd="cd /repo && cargo test --workspace --no-fail-fast --offline",
                   source_commits=["0dc7772", "1a52b04"], add_only=True),
        engines=[dict(name="lean-model+correspondence", path="/verif/lean, /verif/harness, /verif/tools",
                      serves_properties=[p for p in ALL if p in READY],
                      kind_free_text="Lean 4 model + theorems (lake build, #print axioms audit); Rust harness running the same cases on the real crates; Python comparison, oracles, shrinking")],
        checks=checks,
        notes="See DESIGN.md. Violations found on the unchanged tree and repaired are listed in known_findings.json (status fixed).",
        not_applicable=[dict(property_id=p, reason="not claimed yet: the correspondence check and oracle run (./check " + p + " quick) but its Lean property theorems are still being proved; it will be claimed when they are, see DESIGN.md §5")
                        for p in ALL if p not in READY],
    )
    json.dump(m, open(os.path.join(VERIF, "MANIFEST.json"), "w"), indent=1)

main()
