#!/usr/bin/env python3
"""seed_verify.py <srcdir> <seed-id> <property> [--demo-crate pie|graph]
Confirms an independently written property-breaking change (srcdir holds patch.diff + demo*.rs + README.md):
in a scratch worktree of /repo: patch applies, the existing suite passes with it, the demonstration passes without
it and fails with it. Then runs every check against a patched copy (tools/mutrun.py) and records the result in
/verif/seeded/<seed-id>/ (patch.diff, demo.rs, meta.json). The scratch worktree is removed afterwards."""
import glob, json, os, shutil, subprocess, sys, time


def sh(cmd, cwd=None):
    p = subprocess.run(cmd, shell=True, cwd=cwd, stdout=subprocess.PIPE, stderr=subprocess.STDOUT, text=True)
    return p.returncode, p.stdout


def main():
    src, sid, prop = sys.argv[1], sys.argv[2], sys.argv[3]
    patch = os.path.join(src, "patch.diff")
    demos = sorted(glob.glob(os.path.join(src, "demo*.rs")))
    assert os.path.exists(patch) and demos, "need patch.diff and demo*.rs"
    demo = demos[0]
    crate = "graph" if ("--demo-crate" in sys.argv and sys.argv[sys.argv.index("--demo-crate") + 1] == "graph") else (
        "graph" if "pie_graph" in open(demo).read() and "use pie::" not in open(demo).read() else "pie")
    wt = f"/tmp/seedv/{sid}"
    sh(f"git -C /repo worktree remove --force {wt}")
    shutil.rmtree(wt, ignore_errors=True)
    rc, out = sh(f"git -C /repo worktree add -q --detach {wt} HEAD")
    assert rc == 0, out
    meta = dict(id=sid, property=prop, demo_crate=crate, ran=[])
    try:
        tdir = os.path.join(wt, crate, "tests")
        os.makedirs(tdir, exist_ok=True)
        tname = "seed_demo"
        shutil.copy(demo, os.path.join(tdir, tname + ".rs"))
        feat = "--features file_hash_checker" if crate == "pie" else ""
        pkg = "pie" if crate == "pie" else "pie_graph"
        demo_cmd = f"cargo test -p {pkg} {feat} --offline --test {tname}"
        rc0, out0 = sh(demo_cmd + " 2>&1 | tail -15", cwd=wt)
        ok0 = "test result: ok" in out0
        meta["ran"].append(dict(cmd=demo_cmd + "   (without the change)", passed=ok0))
        rc, out = sh(f"git apply {os.path.abspath(patch)}", cwd=wt)
        meta["patch_applies"] = rc == 0
        if rc != 0:
            meta["error"] = out
        else:
            rc1, out1 = sh(demo_cmd + " 2>&1 | tail -25", cwd=wt)
            fail1 = "test result: FAILED" in out1 or "panicked" in out1 or "error: test failed" in out1
            meta["ran"].append(dict(cmd=demo_cmd + "   (with the change)", failed=fail1, tail=out1[-600:]))
            os.remove(os.path.join(tdir, tname + ".rs"))
            rc2, out2 = sh("cargo test --workspace --offline 2>&1 | grep -E '^test result|FAILED|failed' ", cwd=wt)
            suite_ok = "FAILED" not in out2 and "failed;" in out2 and all(" 0 failed" in l for l in out2.splitlines() if l.startswith("test result"))
            rc3, out3 = sh("cargo test -p pie --features file_hash_checker --offline 2>&1 | grep -E '^test result|FAILED' ", cwd=wt)
            suite_ok2 = "FAILED" not in out3 and all(" 0 failed" in l for l in out3.splitlines() if l.startswith("test result"))
            meta["ran"].append(dict(cmd="cargo test --workspace --offline (with the change)", passed=suite_ok))
            meta["ran"].append(dict(cmd="cargo test -p pie --features file_hash_checker --offline (with the change)", passed=suite_ok2))
            meta["confirmed"] = bool(ok0 and fail1 and suite_ok and suite_ok2)
    finally:
        sh(f"git -C /repo worktree remove --force {wt}")
        shutil.rmtree(wt, ignore_errors=True)
    if meta.get("confirmed"):
        rc, out = sh(f"python3 /verif/tools/mutrun.py patch {os.path.abspath(patch)} {os.environ.get('SEED_PROPS', '')}")
        det = [l for l in out.splitlines() if l.startswith("== ")]
        meta["checks"] = det[0] if det else out[-500:]
        meta["violation_lines"] = [l.strip() for l in out.splitlines() if "VIOLATION" in l][:6]
    readme = os.path.join(src, "README.md")
    meta["needs_to_manifest"] = open(readme).read()[:1500] if os.path.exists(readme) else ""
    dst = f"/verif/seeded/{sid}"
    os.makedirs(dst, exist_ok=True)
    shutil.copy(patch, os.path.join(dst, "patch.diff"))
    shutil.copy(demo, os.path.join(dst, "demo.rs"))
    json.dump(meta, open(os.path.join(dst, "meta.json"), "w"), indent=1)
    print(json.dumps({k: v for k, v in meta.items() if k != "needs_to_manifest"}, indent=1))


main()
