#!/usr/bin/env python3
"""./check <property> <quick|thorough> | ./check <property> --replay <file>

One check run (DESIGN.md §2.1): proof obligations (lake build + axiom audit), rebuild of the
harness against /repo's working tree, correspondence model-vs-implementation on generated
cases (property-specific projection), executable property oracle on the implementation's
observations, search for a failing input when the correspondence breaks, known findings,
evidence."""
import json, os, random, sys, time, glob

sys.path.insert(0, os.path.dirname(os.path.abspath(__file__)))
import vcommon as V
from vcommon import Case
import props as P


def load_corpus(kinds, prop):
    """regression corpus: minimised past failures and the recorded histories of the known findings; a file applies
    to the properties named in its `# props:` header line"""
    cases = []
    for kind in kinds:
        for f in sorted(glob.glob(os.path.join(V.VERIF, "corpus", kind, "*.case"))):
            head = [l for l in open(f) if l.startswith("# props:")]
            if head and prop not in head[0].split(":", 1)[1].split():
                continue
            body = [l.rstrip() for l in open(f) if not l.startswith("#") and l.strip()]
            cases.append(Case(kind, "corpus-" + os.path.basename(f)[:-5], body, {"corpus": f}))
    return cases


def strip(lines):
    """drop implementation-only (`i:`) and model-only (`m:`) annotation lines before comparing"""
    return [l for l in lines if not l.startswith(("i: ", "m: "))]


def evaluate(prop, cfg, cases, impl, model):
    """-> (disagreements, oracle_failures): lists of (case, detail)"""
    dis, ora = [], []
    for c in cases:
        io, mo = impl.get((c.kind, c.cid), ["<no output>"]), model.get((c.kind, c.cid), ["<no output>"])
        pi, pm = cfg["proj"](c, strip(io)), cfg["proj"](c, strip(mo))
        d = V.first_diff(pi, pm)
        if d is not None:
            dis.append((c, dict(projection=cfg.get("proj_name", prop), line=d[0], implementation=d[1], model=d[2])))
        fails = cfg["oracle"](c, io)
        if fails:
            ora.append((c, fails))
    return dis, ora


def run_both(cases):
    impl = V.run_cases(V.HBIN, cases)
    model = V.run_cases(V.DRIVER, cases)
    return impl, model


SHRINK_DEADLINE = [None]   # wall-clock limit for all shrinking of one run (the unshrunk case is a valid replay too)


def shrink(prop, cfg, case, mode):
    """mode 'oracle': keep while the oracle still fails on the implementation;
    mode 'diff': keep while implementation and model still disagree on the projection."""
    def pred(body):
        c = Case(case.kind, "shrink", cfg.get("fix_body", lambda b: b)(body))
        if mode == "oracle":
            io = V.run_cases(V.HBIN, [c], jobs=1).get((c.kind, c.cid), [])
            mo = V.run_cases(V.DRIVER, [c], jobs=1).get((c.kind, c.cid), [])
            return bool(cfg["oracle"](c, io)) and not cfg.get("known_match", lambda *_: None)(c, io, mo)
        io = V.run_cases(V.HBIN, [c], jobs=1).get((c.kind, c.cid), [])
        mo = V.run_cases(V.DRIVER, [c], jobs=1).get((c.kind, c.cid), [])
        return V.first_diff(cfg["proj"](c, strip(io)), cfg["proj"](c, strip(mo))) is not None
    body = V.ddmin(case.body, pred, max_tests=cfg.get("shrink_tests", 250), deadline=SHRINK_DEADLINE[0])
    return Case(case.kind, case.cid + "-min", body, case.meta)


def audit_imports(prop):
    """the Lean modules the audit of a property imports: they are the proof obligations that must build"""
    path = os.path.join(V.LEAN, "PieModel", "Audit", f"{prop}.lean")
    if not os.path.exists(path):
        return []
    return [l.split()[1] for l in open(path) if l.startswith("import ")]


def audit_names(prop):
    """the obligations of a property: every theorem listed in PieModel/Audit/<prop>.lean"""
    path = os.path.join(V.LEAN, "PieModel", "Audit", f"{prop}.lean")
    if not os.path.exists(path):
        return []
    return [l.split()[2] for l in open(path) if l.startswith("#print axioms ")]


def observed_distribution(cases, impl):
    """what the generated cases actually exercised on the real crates (generator quality bounds what the
    correspondence sees)"""
    import collections
    c = collections.Counter()
    for case in cases:
        io = impl.get((case.kind, case.cid), [])
        c["cases"] += 1
        c["output_lines"] += len(io)
        if case.kind == "build":
            ex = sum(1 for l in io if l.startswith("ev execute_start"))
            c["executions"] += ex
            c["sessions"] += sum(1 for l in io if l == "op session")
            c["requires_without_any_execution"] += sum(1 for i, l in enumerate(io) if l.startswith("op req") and not any(
                x.startswith("ev execute_start") for x in io[i + 1:i + 400] if not x.startswith("op ")) )
            for l in io:
                if l.startswith("abort "): c["abort_" + l[6:].split(":")[0]] += 1
                elif l.startswith("ev ") and l.endswith(" inconsistent"): c["inconsistent_checks"] += 1
                elif l.startswith("ev ") and " error(" in l: c["checker_errors"] += 1
                elif l.startswith("ev schedule_task"): c["scheduled"] += 1
                elif l.startswith("ev check_task_end") and l.endswith(" consistent"): c["consistent_require_checks"] += 1
                elif l.startswith("ev write_end"): c["writes"] += 1
                elif l.startswith("op bu"): c["bottom_up_builds"] += 1
        elif case.kind == "graph":
            for l in io:
                if l.startswith("op addedge"): c["addedge_" + l.rsplit("-> ", 1)[1]] += 1
                elif l.startswith("op rm"): c[l.split(" ")[1]] += 1
    return dict(c)


def hypothesis_counts(cases, model):
    """The Lean driver evaluates the VERIFIED Boolean checkers of the theorem hypotheses (Props/ScriptWF.lean) on the
    program table of every build case (`m: hyp ...` line).  Counts per stream: to how many of the generated cases the
    theorems about the model apply literally (C01_scripts: wf & total; C01_scripts_free: free & total;
    C02_scripts_idempotent / C03_scripts / C01_scripts_mixed: wf & total & nofail; C20_scripts_no_abort: static)."""
    import collections
    out = collections.defaultdict(lambda: collections.Counter())
    for c in cases:
        if c.kind != "build": continue
        hyp = [l for l in model.get((c.kind, c.cid), []) if l.startswith("m: hyp ")]
        st = c.meta.get("stream", "corpus")
        out[st]["cases"] += 1
        if not hyp: continue
        f = dict(kv.split("=") for kv in hyp[-1].split(" ")[2:])
        b = {k: v == "1" for k, v in f.items()}
        if b["wf"] and b["total"]: out[st]["C01_scripts applies (wfB, stampTotalB)"] += 1
        if b["free"] and b["total"]: out[st]["C01_scripts_free applies (wfFreeB, stampTotalB)"] += 1
        if b["wf"] and b["total"] and b["nofail"]: out[st]["C02_scripts_idempotent/C03_scripts/C01_scripts_mixed apply (wfB, stampTotalB, noFailB)"] += 1
        if b["static"]: out[st]["C20_scripts_no_abort applies (staticRolesB)"] += 1
        if b.get("cov"): out[st]["C20_trans_scripts_* / C05_trans_scripts_noHidden apply (covB: transitive static roles)"] += 1
        if b.get("wfcov") and b["total"]: out[st]["C01_trans_scripts applies (wfCovB, stampTotalB: transitive static roles)"] += 1
    return {k: dict(v) for k, v in out.items()}


def replay_path(prop, seed, n):
    return os.path.join(V.VERIF, "replays", f"{prop}-{seed}-{n}.json")


def main():
    t0 = time.time()
    args = sys.argv[1:]
    if len(args) < 2:
        print(__doc__); sys.exit(2)
    prop = args[0]
    cfg = P.PROPS[prop]
    seed = int(os.environ.get("VERIF_SEED", "1"))
    if args[1] == "--replay":
        return replay(prop, cfg, args[2])
    tier = args[1]
    assert tier in ("quick", "thorough")
    violations, known_lines, notes = [], [], []
    nrep = [0]

    def violation(kind, payload, no_input=False):
        nrep[0] += 1
        path = replay_path(prop, seed, nrep[0])
        payload = dict(payload, property=prop, kind=kind, seed=seed, tier=tier)
        V.write_json(path, payload)
        violations.append(path)
        print(f"VIOLATION property={prop} replay={path}" + (" no-failing-input-found" if no_input else ""), flush=True)

    # 1. proof obligations -------------------------------------------------------------------
    cfg["lean_targets"] = sorted(set(cfg["lean_targets"]) | set(audit_imports(prop)))
    ok_build, log = V.build_lean(cfg["lean_targets"] + ["driver"])
    thms, audit_ok, audit_log = [], False, ""
    if ok_build:
        audit_ok, thms, audit_log = V.audit(prop)
    scan = V.textual_scan()
    leanchecker = None
    if tier == "thorough" and ok_build:
        mods = [t for t in cfg["lean_targets"]]
        rc, out = V.sh(["lake", "env", "leanchecker"] + mods, cwd=V.LEAN)
        leanchecker = dict(rc=rc, out=out[-2000:])
        if rc != 0:
            audit_ok = False
    expected = set(audit_names(prop))
    cfg["theorems"] = sorted(expected)
    got = {n for n, _ in thms}
    missing = sorted(expected - got)
    if not ok_build or not audit_ok or scan or missing:
        violation("proof", dict(what="a proof obligation of this property no longer checks",
                                lake_build_ok=ok_build, log=log[-4000:], audit=audit_log[-4000:], forbidden=scan,
                                missing_theorems=missing), no_input=True)

    # 2. rebuild the harness against /repo's working tree ----------------------------------------
    ok_h, hlog = V.build_harness()
    if not ok_h:
        violation("build", dict(what="the correspondence harness no longer compiles against /repo's working tree; "
                                     "the correspondence cannot be established", log=hlog[-6000:]), no_input=True)
        return finish(prop, tier, seed, t0, cfg, thms, [], {}, violations, known_lines, notes, leanchecker, 0, 0, [])

    # 3. correspondence + oracle ---------------------------------------------------------------
    rng = random.Random(seed * 1000003 + sum(map(ord, prop)))
    cases, stats = load_corpus(cfg["kinds"], prop), {}
    gen_cases, gstats = cfg["generate"](rng, tier, seed)
    cases += gen_cases
    stats.update(gstats)
    stats["depth_factor"] = V.depth_factor()   # 1 on the calibrated tree, 4 when /repo's library sources differ from it
    impl, model = run_both(cases)
    dis, ora = evaluate(prop, cfg, cases, impl, model)
    stats["verified_hypotheses"] = hypothesis_counts(cases, model)
    # independent replays of every history in fresh processes (fresh hash seeds): the implementation must reproduce
    # its own observations exactly (C16)
    nrep_runs = cfg.get("replays", {}).get(tier, 0)
    replay_diffs = 0
    for k in range(nrep_runs):
        again = V.run_cases(V.HBIN, cases, jobs=max(2, V.JOBS - 3 * k))
        for c in cases:
            a, b = strip(impl.get((c.kind, c.cid), [])), strip(again.get((c.kind, c.cid), []))
            d = V.first_diff(a, b)
            if d is not None:
                replay_diffs += 1
                if replay_diffs <= 2:
                    violation("oracle-failure", dict(
                        what="two independent replays of the same history on fresh Pie instances (separate processes, fresh hash seeds) differ",
                        case=dict(kind=c.kind, body=c.body, meta=c.meta), failures=[f"line {d[0]}: first replay '{d[1]}', replay #{k + 2} '{d[2]}'"],
                        implementation=a, second_replay=b))
    stats["independent_replays_per_case"] = 1 + nrep_runs
    stats["replay_differences"] = replay_diffs

    # 4./5. classify: known findings, violations; search for failing input on disagreement ------
    SHRINK_DEADLINE[0] = time.time() + (75 if tier == "quick" else 900)
    ora.sort(key=lambda cf: len(cf[0].body))     # report (and shrink) the smallest failing cases
    dis.sort(key=lambda cd: len(cd[0].body))
    known = [k for k in V.load_known_findings() if k["property"] == prop and k["status"] == "known"]
    known_hits = {k["id"]: 0 for k in known}
    reported = 0
    ora_ids = set()
    for c, fails in ora:
        io = impl.get((c.kind, c.cid), [])
        kid = cfg.get("known_match", lambda *_: None)(c, io, model.get((c.kind, c.cid), []))
        if kid is not None and kid in known_hits:
            known_hits[kid] += 1     # NOT added to ora_ids: a model/implementation disagreement on this case is still reported
            continue
        ora_ids.add((c.kind, c.cid))
        if reported < 3:
            small = shrink(prop, cfg, c, "oracle")
            sio, smo = run_both([small])
            violation("oracle-failure", dict(
                what="the implementation violates the executable statement of the property on this input",
                case=dict(kind=small.kind, body=small.body, meta=small.meta), original_case=dict(kind=c.kind, id=c.cid, body=c.body),
                failures=cfg["oracle"](small, sio.get((small.kind, small.cid), [])) or fails,
                implementation=sio.get((small.kind, small.cid), []), model=smo.get((small.kind, small.cid), [])))
        reported += 1
    ndis_reported = 0
    for c, detail in dis:
        if (c.kind, c.cid) in ora_ids:
            continue  # already explained by a concrete property failure (or known finding)
        if ndis_reported >= 2:
            ndis_reported += 1
            continue
        ndis_reported += 1
        small = shrink(prop, cfg, c, "diff")
        # search: oracle on the shrunk case and on perturbations around it
        found = None
        probe = [small] + cfg.get("perturb", lambda case, rng: [])(small, rng)
        pio = V.run_cases(V.HBIN, probe)
        pmo = V.run_cases(V.DRIVER, probe)
        for pc in probe:
            f = cfg["oracle"](pc, pio.get((pc.kind, pc.cid), []))
            if f and cfg.get("known_match", lambda *_: None)(pc, pio.get((pc.kind, pc.cid), []), pmo.get((pc.kind, pc.cid), [])) is None:
                found = (pc, f)
                break
        sio, smo = run_both([small])
        if found:
            violation("oracle-failure", dict(
                what="correspondence broke; search found an input on which the implementation violates the property",
                case=dict(kind=found[0].kind, body=found[0].body, meta=found[0].meta), failures=found[1],
                correspondence=detail, implementation=pio.get((found[0].kind, found[0].cid), [])))
        else:
            d = V.first_diff(cfg["proj"](small, strip(sio.get((small.kind, small.cid), []))), cfg["proj"](small, strip(smo.get((small.kind, small.cid), []))))
            violation("correspondence", dict(
                what=f"correspondence '{detail['projection']}' between the Lean model and the implementation no longer checks; "
                     "no input violating the property itself was found",
                case=dict(kind=small.kind, body=small.body, meta=small.meta), first_difference=dict(line=d[0], implementation=d[1], model=d[2]) if d else detail,
                implementation=sio.get((small.kind, small.cid), []), model=smo.get((small.kind, small.cid), [])), no_input=True)
    for k in known:
        # replay the recorded history of each known finding on the real crates
        kc = [c for c in cases if c.cid == "corpus-" + k.get("corpus", "?")]
        still = any(cfg["oracle"](c, impl.get((c.kind, c.cid), [])) for c in kc)
        if still or known_hits.get(k["id"], 0) > 0:
            line = f"KNOWN-FINDING: property={prop} {k['id']} {k['what']} (recorded history {'still fails' if still else 'not replayed'}; {known_hits.get(k['id'], 0)} generated cases match its pattern)"
            print(line, flush=True)
            known_lines.append(line)
        else:
            notes.append(f"known finding {k['id']} no longer reproduces")
    stats["observed"] = observed_distribution(cases, impl)
    samples = [dict(case=c.body[:40], implementation_output_head=impl.get((c.kind, c.cid), [])[:12]) for c in cases[:2]]
    return finish(prop, tier, seed, t0, cfg, thms, cases, stats, violations, known_lines, notes, leanchecker,
                  len(dis), len(ora), samples, impl)


def finish(prop, tier, seed, t0, cfg, thms, cases, stats, violations, known_lines, notes, leanchecker, ndis, nora, samples, impl=None):
    distinct = set()
    nontrivial = cfg.get("nontrivial", lambda c, io: True)
    for c in cases:
        io = (impl or {}).get((c.kind, c.cid), [])
        if nontrivial(c, io):
            distinct.add("\n".join(c.body))
    ev = dict(
        property_id=prop, tier=tier, seed=seed, level="proof",
        coverage=dict(
            obligations=len(cfg["theorems"]), discharged=len([1 for n, _ in thms if n in cfg["theorems"]]),
            theorems=[dict(name=n, axioms=a) for n, a in thms],
            checker_cmd=f"cd /verif/lean && lake build {' '.join(cfg['lean_targets'])} && lake env lean PieModel/Audit/{prop}.lean"
                        + (" && lake env leanchecker " + " ".join(cfg["lean_targets"]) if tier == "thorough" else ""),
            trusted_base=V.TRUSTED_BASE + cfg.get("trusted_extra", []),
            stated_not_proved=cfg.get("stated_not_proved", []),
            evaluations=len(cases), distinct_nontrivial=len(distinct),
            rule=cfg.get("rule", ""), samples=samples or [dict(note="no cases were run")],
            traces_validated_against_impl=len(cases), disagreements_checked=ndis, oracle_failures=nora,
            generator_distribution=stats, exhaustive=bool(stats.get("exhaustive", False)),
            leanchecker=leanchecker, known_findings_reported=known_lines, notes=notes,
        ),
        assumptions=cfg.get("assumptions", []),
        wall_s=round(time.time() - t0, 2), violations=len(violations),
    )
    V.write_json(os.path.join(V.VERIF, "evidence", f"{prop}.json"), ev)
    print(f"{prop} {tier}: {len(cases)} cases, {ndis} model/implementation disagreements, {nora} oracle failures, "
          f"{len(thms)} theorems audited, {len(violations)} violations, {ev['wall_s']}s")
    sys.exit(1 if violations else 0)


def replay(prop, cfg, path):
    r = json.load(open(path))
    if "case" not in r:
        print(json.dumps(r, indent=1)[:4000]); sys.exit(1)
    ok_h, hlog = V.build_harness()
    V.build_lean(["driver"])
    c = Case(r["case"]["kind"], "replay", r["case"]["body"], r["case"].get("meta") or {})
    impl, model = run_both([c])
    io, mo = impl.get((c.kind, c.cid), []), model.get((c.kind, c.cid), [])
    print("--- case"); print(c.text())
    print("--- implementation"); print("\n".join(io))
    print("--- model"); print("\n".join(mo))
    d = V.first_diff(cfg["proj"](c, strip(io)), cfg["proj"](c, strip(mo)))
    print("--- projection difference:", d)
    f = cfg["oracle"](c, io)
    print("--- property oracle on the implementation:", f if f else "holds")
    if f:
        print(f"VIOLATION property={prop} replay={path}")
    sys.exit(1 if (f or d) else 0)


if __name__ == "__main__":
    main()
