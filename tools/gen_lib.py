"""Generators and implementation-side oracles for the library streams (lib12, lib14, lib15, lib17)."""
import itertools, re


# ------------------------------------------------------------------------------------------ lib12
def lib12_all():
    dom = [-3, -2, -1, 0, 1, 2]
    base = [f"chk {c} {a} {b}" for c in range(5) for a in dom for b in dom]
    # other output types (zero-sized Ok payload; zero-sized error with bool / String payloads): verdicts only
    return base + [f"{f} {c} {a} {b}" for f in ("chk2", "chk3", "chk4") for c in range(5) for a in dom for b in dom]


def oracle12(case, lines):
    fails = []
    for l in lines:
        m2 = re.match(r"chk([234]) (\d) (-?\d+) (-?\d+) -> (\w+) obj=(\w+) objtyped=(\w+)", l)
        if m2:
            f, c, a, b = int(m2.group(1)), int(m2.group(2)), int(m2.group(3)), int(m2.group(4))
            norm = {2: lambda n: 0 if n >= 0 else n, 3: lambda n: n % 2 if n >= 0 else -1, 4: lambda n: n if n >= 0 else -1}[f]
            a, b = norm(a), norm(b)
            ok1, ok2 = a >= 0, b >= 0
            rel = [a == b, (ok1 and ok2 and a == b) or (not ok1 and not ok2), (not ok1 and not ok2 and a == b) or (ok1 and ok2), ok1 == ok2, True][c]
            want = "consistent" if rel else "inconsistent"
            if m2.group(5) != want: fails.append(f"checker {c} on output type family {f}: output {b} against stamp of {a}: {m2.group(5)}, documented relation says {want}")
            if m2.group(6) != m2.group(5) or m2.group(7) != m2.group(5): fails.append(f"checker {c} family {f}: OutputCheckerObj proxy disagrees: {l}")
            continue
        m = re.match(r"chk (\d) (-?\d+) (-?\d+) -> stamp=(\S+) (\w+) obj=(\w+) objstamp=(\S+) objtyped=(\w+)", l)
        if not m:
            if l.startswith(("bad-op", "harness", "process")): fails.append(l)
            continue
        c, a, b = int(m.group(1)), int(m.group(2)), int(m.group(3))
        ok1, ok2 = a >= 0, b >= 0
        rel = [a == b, (ok1 and ok2 and a == b) or (not ok1 and not ok2), (not ok1 and not ok2 and a == b) or (ok1 and ok2),
               ok1 == ok2, True][c]
        want = "consistent" if rel else "inconsistent"
        if m.group(5) != want: fails.append(f"checker {c}: output {b} against stamp of {a}: {m.group(5)}, documented relation says {want}")
        if m.group(6) != m.group(5) or m.group(8) != m.group(5) or m.group(7) != m.group(4):
            fails.append(f"checker {c}: OutputCheckerObj proxy disagrees with the checker on ({a},{b}): {l}")
    return fails


# ------------------------------------------------------------------------------------------ lib14
def gen14(rng, n=40):
    ops = []
    nostamps = [0]
    for _ in range(n):
        r = rng.random()
        K = rng.choice("AB"); key = rng.randint(0, 3)
        if rng.random() < 0.22:
            # object flavour (MapKeyObjToObj): key types 0,1 with a number, 2,3 zero-sized; value types 0 (i64), 1 (String), 2,3 zero-sized
            kt = rng.randint(0, 3); kn = 0 if kt >= 2 else rng.randint(0, 2)
            q = rng.random()
            if q < 0.35:
                vt = rng.randint(0, 3); ops.append(f"oins {kt} {kn} {vt} {0 if vt >= 2 else rng.randint(0, 3)}")
            elif q < 0.45: ops.append(f"orem {kt} {kn}")
            elif q < 0.65: ops.append(f"oread {kt} {kn}")
            elif q < 0.8: ops.append(f"ostamp {kt} {kn}"); nostamps[0] += 1
            elif nostamps[0]: ops.append(f"ocheck {kt} {kn} {rng.randrange(nostamps[0])}")
            continue
        if r < 0.18: ops.append(f"ins {K} {key} {rng.randint(0, 9)}")
        elif r < 0.30: ops.append(f"wins {K} {key} {rng.randint(0, 9)}")
        elif r < 0.36: ops.append(f"rem {K} {key}")
        elif r < 0.42: ops.append(f"wrem {K} {key}")
        elif r < 0.54: ops.append(f"read {K} {key}")
        elif r < 0.58: ops.append(f"wget {K} {key}")
        elif r < 0.62: ops.append(f"wgetmut {K} {key} {rng.randint(1, 3)}")
        elif r < 0.70: ops.append(f"stamp {K} {key} {rng.randint(0, 2)}")
        elif r < 0.78: ops.append(f"check {K} {key} {rng.choice(['none'] + [str(i) for i in range(10)])}")
        else:
            R = rng.choice("ABM"); S = rng.choice(["int", "str", "mapA", "mapB"])
            q = rng.random()
            if q < 0.3: ops.append(f"get {R} {S}")
            elif q < 0.5: ops.append(f"gosd {R} {S}")
            elif q < 0.6: ops.append(f"getboxed {R}")
            elif q < 0.65: ops.append(f"getmut {R} int {rng.randint(1, 3)}")
            elif q < 0.7: ops.append(f"setboxed {R} int {rng.randint(0, 9)}")
            else:
                v = {"int": str(rng.randint(0, 9)), "str": rng.choice(["x", "yy", "zzz"]),
                     "mapA": ",".join(f"{rng.randint(0, 3)}:{rng.randint(0, 9)}" for _ in range(rng.randint(0, 2))),
                     "mapB": ",".join(f"{rng.randint(0, 3)}:{rng.randint(0, 9)}" for _ in range(rng.randint(0, 2)))}[S]
                if v == "": v = "0:0"
                ops.append(f"set {R} {S} {v}")
    return ops


def oracle14(case, lines):
    """independent reference: one slot per resource type holding (state type, value)"""
    fails, slot = [], {}
    omap, ostamps = {}, []
    mt = {"A": "mapA", "B": "mapB"}

    def gmap(K):
        if K not in slot or slot[K][0] != mt[K]: slot[K] = (mt[K], {})
        return slot[K][1]

    def show(tv):
        t, v = tv
        if t in ("mapA", "mapB"): return f"{t}:[" + ",".join(f"{k}:{x}" for k, x in sorted(v.items())) + "]"
        return f"{t}:{v}"
    for l in lines:
        if " -> " not in l:
            if l.startswith(("bad-op", "harness", "process")): fails.append(l)
            continue
        op, res = l.split(" -> ")
        t = op.split(" ")
        o = lambda v: "none" if v is None else f"some:{v}"
        exp = None
        if t[0].startswith("o"):
            # object flavour: its own slot; keys and values are (type, value) pairs, zero-sized types carry value 0
            kk = (int(t[1]), 0 if int(t[1]) >= 2 else int(t[2]))
            ov = lambda v: "none" if v is None else f"some:{v[0]}:{v[1]}"
            if t[0] == "oins":
                vv = (int(t[3]), 0 if int(t[3]) >= 2 else int(t[4])); exp = ov(omap.get(kk)); omap[kk] = vv
            elif t[0] == "orem": exp = ov(omap.pop(kk, None))
            elif t[0] == "oread": exp = ov(omap.get(kk))
            elif t[0] == "ostamp": exp = f"s{len(ostamps)} {ov(omap.get(kk))}"; ostamps.append(omap.get(kk))
            elif t[0] == "ocheck":
                if int(t[3]) < len(ostamps): exp = "consistent" if omap.get(kk) == ostamps[int(t[3])] else "inconsistent"
            if exp is not None and exp != res:
                fails.append(f"'{op}' returned {res}, a map keyed by (concrete key type, value) with read-your-writes says {exp}")
            continue
        if t[0] in ("ins", "wins"): m = gmap(t[1]); exp = o(m.get(int(t[2]))); m[int(t[2])] = int(t[3])
        elif t[0] in ("rem", "wrem"): m = gmap(t[1]); exp = o(m.pop(int(t[2]), None))
        elif t[0] in ("read", "wget", "stamp"): exp = o(gmap(t[1]).get(int(t[2])))
        elif t[0] == "wgetmut":
            m = gmap(t[1]); k = int(t[2])
            if k in m: m[k] += int(t[3]); exp = o(m[k])
            else: exp = "none"
        elif t[0] == "check":
            cur = gmap(t[1]).get(int(t[2])); s = None if t[3] == "none" else int(t[3])
            exp = "consistent" if cur == s else "inconsistent"
        elif t[0] == "get": exp = show(slot[t[1]]) if t[1] in slot and slot[t[1]][0] == t[2] else "none"
        elif t[0] == "getboxed": exp = show(slot[t[1]]) if t[1] in slot else "none"
        elif t[0] == "getmut":
            if t[1] in slot and slot[t[1]][0] == "int": slot[t[1]] = ("int", slot[t[1]][1] + int(t[3])); exp = show(slot[t[1]])
            else: exp = "none"
        elif t[0] in ("set", "setboxed"):
            S = t[2]
            v = int(t[3]) if S == "int" else t[3] if S == "str" else {int(a.split(":")[0]): int(a.split(":")[1]) for a in t[3].split(",") if a}
            slot[t[1]] = (S, v); exp = "ok"
        elif t[0] == "gosd":
            if t[1] not in slot or slot[t[1]][0] != t[2]:
                slot[t[1]] = (t[2], {"int": 0, "str": "", "mapA": {}, "mapB": {}}[t[2]])
            exp = show(slot[t[1]])
        if exp is not None and exp != res:
            fails.append(f"'{op}' returned {res}, a per-type slot map with read-your-writes says {exp}")
    return fails


# ------------------------------------------------------------------------------------------ lib15
def gen15(rng):
    ops = []
    for _ in range(rng.randint(2, 4)):
        for _ in range(rng.randint(0, 2)):
            ops.append(f"set {rng.choice([5, 6])} {rng.randint(0, 2)} {rng.randint(1, 5)}")
        ops.append("session")
        for _ in range(rng.randint(1, 5)):
            if rng.random() < 0.25: ops.append(f"req {rng.choice([7, 8])} 0")      # zero-sized task types
            else: ops.append(f"req {rng.randint(0, 4)} {rng.randint(0, 2)}")
        ops.append("endsession")
    def key():
        t = rng.randint(0, 8)
        return f"{t} {0 if t >= 7 else rng.randint(0, 2)}"
    for _ in range(6):
        ops.append(f"eq {key()} {key()}")
    return ops


def oracle15(case, lines):
    fails, tasks, ress = [], set(), set()
    in_sess_exec = None
    vals = {}   # value of resources
    last_out = {}
    for l in lines:
        if l.startswith(("bad-op", "harness", "process")): fails.append(l); continue
        if l == "session": in_sess_exec = []; continue
        if l.startswith("exec "):
            in_sess_exec.append(l); continue
        if l.startswith("set "):
            t = l.split(" "); vals[(int(t[1]), int(t[2]))] = int(t[3]); continue
        if l.startswith("req "):
            t = l.split(" "); ty, n = int(t[1]), int(t[2])
            tasks.add((ty, n))
            if ty in (7, 8):
                ress.add((5, 0))
                want = f"out {ty * 1000 + vals.get((5, 0), 0)}"
                got = l.split(" -> ")[1]
                if got != want: fails.append(f"'{l}': expected {want} (zero-sized tasks of different types must not share a cached output)")
                continue
            for m in range(n): tasks.add((0, m)); tasks.add((1, m))
            for m in range(n + 1): ress.add((5, m)); ress.add((6, m))
            # expected output by the documented body
            def val(ty, n):
                base = 1 if ty == 1 else 0
                sub = (val(0, n - 1) + val(1, n - 1)) if n > 0 else 0
                return base * 1000 + n * 10 + vals.get((5, n), 0) + 100 * vals.get((6, n), 0) + 7 * sub
            want = f"out {val(ty, n)}"
            got = l.split(" -> ")[1]
            if got != want: fails.append(f"'{l}': expected {want} (tasks of different types must not share a cached output)")
            continue
        if l.startswith("endsession"):
            m = re.match(r"endsession tasks=(\d+) resources=(\d+)", l)
            if int(m.group(1)) != len(tasks) or int(m.group(2)) != len(ress):
                fails.append(f"{l}: expected {len(tasks)} task nodes and {len(ress)} resource nodes (one per (type, value))")
            c = {}
            for e in in_sess_exec: c[e] = c.get(e, 0) + 1
            # equal tasks are executed once per session: an exec line (base type, n) can occur once per distinct key of that base type
            continue
        if l.startswith("eq "):
            t = l.split(" "); same = (t[1], t[2]) == (t[3], t[4])
            got = l.split(" -> ")[1].split(" ")[0]
            if got != ("true" if same else "false"): fails.append(f"'{l}': keys are equal iff same concrete type and value")
    return fails


# ------------------------------------------------------------------------------------------ lib17
def gen17(rng, n=25):
    ops = ["call bs"] if rng.random() < 0.7 else []
    for _ in range(n):
        r = rng.random()
        x = rng.randint(0, 2)
        if r < 0.08: ops.append("call bs")
        elif r < 0.14: ops.append("call be")
        elif r < 0.26: ops.append(f"call rqs {x}")
        elif r < 0.36: ops.append(f"call rqe {x} {rng.randint(-2, 3)}")
        elif r < 0.44: ops.append(f"call rds {x}")
        elif r < 0.52: ops.append(f"call rde {x} {rng.choice(['none', '1', '2'])}")
        elif r < 0.58: ops.append(f"call wrs {x}")
        elif r < 0.64: ops.append(f"call wre {x} {rng.choice(['none', '1', '2'])}")
        elif r < 0.76: ops.append(f"call xs {x}")
        elif r < 0.86: ops.append(f"call xe {x} {rng.randint(-2, 3)}")
        else: ops.append(f"call other {rng.randint(0, 12)} {x}")
        if rng.random() < 0.12: ops.append(f"helpers {rng.randint(0, 2)} {rng.randint(0, 2)}")
    ops.append(f"helpers {rng.randint(0, 2)} {rng.randint(0, 2)}")
    return ops


def lib17_exhaustive():
    """every Tracker method once, helpers for every subject"""
    ops = ["call bs", "call rqs 1", "call rqe 1 2", "call rds 1", "call rde 1 2", "call wrs 1", "call wre 1 none", "call xs 1", "call xe 1 -1"]
    ops += [f"call other {k} 1" for k in range(13)] + ["call be"]
    return ops + [f"helpers {x} {r}" for x in (0, 1) for r in (0, 1)]


def oracle17(case, lines):
    """helpers agree with the kind/subject of the event they are applied to; indices are positions"""
    fails = []
    calls = [l for l in case.body if l.startswith("call ")]
    for l in lines:
        if l.startswith(("bad-op", "harness", "process")): fails.append(l); continue
        if l.startswith("composite") and "same" not in l: fails.append("composite tracker children received different streams")
        if not l.startswith("e "): continue
        t = l.split(" ")
        pos, kind = int(t[1]), t[2]
        f = dict(x.split("=") for x in t if "=" in x and not x.startswith("idx"))
        idx = [x for x in t if x.startswith("idx=")]
        if idx and int(idx[0][4:]) != pos: fails.append(f"event at position {pos} carries index {idx[0][4:]}")
        want = dict(bs=kind == "build_start", be=kind == "build_end", ex=kind in ("execute_start", "execute_end"))
        for k, v in want.items():
            if (f[k] == "1") != v: fails.append(f"helper {k} on '{kind}' at {pos} answered {f[k]}")
        for k, kd in dict(mrs="require_start", mre="require_end", mds="read_start", mde="read_end", mws="write_start", mwe="write_end",
                          mxs="execute_start", mxe="execute_end").items():
            if f[k] == "1" and kind != kd: fails.append(f"helper {k} matched a '{kind}' event at {pos}")
    return fails


# ------------------------------------------------------------------------------------------ lib13
SIZES = [0, 1, 5, 8191, 8192, 8193, 8200, 16384, 16385, 65537]
CSEEDS = [0, 1, 2, 3, 100, 100, 101]   # >= 100: uniform content (all bytes seed-100)


def gen13(rng, n=30):
    ops, uniq = [], [0]
    np_ = 3

    def fresh_names():
        uniq[0] += 1
        base = rng.sample(["a", "b", "ab", "ba", "c", "x.txt", "d"], rng.randint(0, 3))
        return base + [f"u{uniq[0]}"]
    nstamps = 0
    kinds = {}
    lastfile = {}
    for _ in range(n):
        p = rng.randrange(np_)
        r = rng.random()
        if r < 0.16:
            size, cseed, mt = rng.choice(SIZES if rng.random() < 0.5 else [0, 1, 2, 3, 10]), rng.choice(CSEEDS), rng.randint(1, 5)
            ops.append(f"mkfile {p} {size} {cseed} {mt}"); lastfile[p] = (size, cseed, mt)
        elif r < 0.22 and p in lastfile and lastfile[p][1] >= 100:
            # uniform content that only grows or shrinks (same bytes, other length; same modification time)
            size, cseed, mt = lastfile[p]
            size = max(0, size + rng.choice([-7, -1, 1, 7, 300]))
            ops.append(f"mkfile {p} {size} {cseed} {mt}"); lastfile[p] = (size, cseed, mt)
            mine = [k for k, (c, p0) in kinds.items() if p0 == p]
            if mine:
                k = rng.choice(mine); ops.append(f"check {kinds[k][0]} {p} {k}")
            ops.append(f"stamp H {rng.choice(['path', 'reader'])} {p}"); kinds[nstamps] = ("H", p); nstamps += 1
        elif r < 0.20 and p in lastfile and lastfile[p][0] > 0:
            # same path rewritten with the SAME size and modification time but different content (restored/copied file,
            # coarse timestamps): only the content hash can tell; then check an earlier stamp of this path
            size, cseed, mt = lastfile[p]
            cseed = (cseed + rng.randint(1, 3)) % 4 if cseed < 100 else 201 - cseed
            ops.append(f"mkfile {p} {size} {cseed} {mt}"); lastfile[p] = (size, cseed, mt)
            mine = [k for k, (c, p0) in kinds.items() if p0 == p]
            if mine:
                k = rng.choice(mine); ops.append(f"check {kinds[k][0]} {p} {k}")
            c = rng.choice("HHM"); ops.append(f"stamp {c} {rng.choice(['path', 'reader'])} {p}"); kinds[nstamps] = (c, p); nstamps += 1
        elif r < 0.24: ops.append(f"mkdir {p} {rng.randint(1, 5)} " + " ".join(fresh_names()))
        elif r < 0.30: ops.append(f"rm {p}"); lastfile.pop(p, None)
        elif r < 0.36: ops.append(f"touch {p} {rng.randint(1, 5)}")
        elif r < 0.56:
            c = rng.choice("EMH"); ops.append(f"stamp {c} {rng.choice(['path', 'reader'])} {p}"); kinds[nstamps] = (c, p); nstamps += 1
        elif r < 0.64:
            c = rng.choice("EMH")
            ops.append(f"wstamp {c} {p} {rng.choice([0, 1, 7, 8193])} {rng.randint(0, 3)} {rng.randint(1, 5)} {'remove' if rng.random() < 0.2 else 'keep'}")
            kinds[nstamps] = (c, p); nstamps += 1     # provisional: not stored if the path is a directory (oracle/model agree on numbering via outputs)
        elif r < 0.84 and kinds:
            k = rng.choice(sorted(kinds)); c, p0 = kinds[k]
            if "/" in str(p0): p0 = p
            ops.append(f"check {c} {p0 if rng.random() < 0.9 else p} {k}")
        elif r < 0.90:
            # a path below p: an error other than NotFound (ENOTDIR) while p is a regular file
            if rng.random() < 0.6 or not kinds:
                c = rng.choice("EMH"); ops.append(f"cstamp {c} {p}"); kinds[nstamps] = (c, f"{p}/zz"); nstamps += 1
            else:
                k = rng.choice(sorted(kinds)); ops.append(f"ccheck {kinds[k][0]} {p} {k}")
        elif r < 0.93: ops.append(f"readafter {rng.choice('EMH')} {p}")
        elif r < 0.96: ops.append(f"write {p} {rng.randint(1, 5)}")
        else: ops.append(f"state {p}")
    return ops


def fix13(body):
    """renumber nothing; cases whose stamp numbering went out of sync (wstamp on a directory stores no stamp) are
    still well-formed: `check` of a missing or wrong-kind stamp is a bad-op on both sides."""
    return body


def lib13_fixed():
    cases = []
    # F2: directory listings that collide under concatenation without separator
    for other in ("ab", "ba"):
        cases.append(["mkdir 0 1 a b", "stamp H path 0", f"mkdir 0 1 {other}", "check H 0 0", "stamp H reader 0", "state 0"])
    # routes agree, for every kind of path state and checker
    for c in "EMH":
        for setup in (["rm 0"], ["mkfile 0 8193 1 2"], ["mkfile 0 0 1 2"], ["mkdir 0 2 a b"]):
            cases.append(setup + [f"stamp {c} path 0", f"stamp {c} reader 0", f"check {c} 0 0", f"check {c} 0 1", f"readafter {c} 0"])
        cases.append([f"wstamp {c} 0 8193 2 3 keep", f"stamp {c} path 0", f"stamp {c} reader 0", f"check {c} 0 0", "state 0"])
        cases.append([f"wstamp {c} 0 5 2 3 remove", f"stamp {c} path 0", f"check {c} 0 0", "state 0"])
    cases.append(["mkdir 0 1 a", "write 0 2", "wstamp H 0 3 1 1 keep", "state 0", "mkfile 1 10 1 1", "write 1 2", "state 1", "write 2 3", "state 2", "stamp M path 2"])
    return cases


def oracle13(case, lines):
    """reference: per-path state tracked from the operations; claims of C13 only"""
    fails = []
    st = {}      # p -> ('file', size, seed, mtime) | ('dir', frozenset(names), mtime)
    ver = {}     # p -> version counter (bumped by every modifying op)
    stamps = []  # (checker, p, text, state at stamp, version)
    import re
    def byte(seed, i): return (seed - 100) if seed >= 100 else (seed * 31 + i * 7) % 251

    def content_sum(size, seed):
        a = 0
        for i in range(size): a = (a * 31 + byte(seed, i)) % 1000003
        return a
    def bump(p): ver[p] = ver.get(p, 0) + 1
    for l in lines:
        if " -> " not in l:
            if l.startswith(("harness", "process")): fails.append(l)
            continue
        op, res = l.split(" -> ", 1)
        t = op.split(" ")
        if t[0] == "mkfile": st[t[1]] = ("file", int(t[2]), int(t[3]), int(t[4])); bump(t[1])
        elif t[0] == "mkdir": st[t[1]] = ("dir", frozenset(t[3:]), int(t[2])); bump(t[1])
        elif t[0] == "rm": st.pop(t[1], None); bump(t[1])
        elif t[0] == "touch":
            if t[1] in st: s = st[t[1]]; st[t[1]] = s[:-1] + (int(t[2]),); bump(t[1])
        elif t[0] == "write":
            cur = st.get(t[1])
            if cur and cur[0] == "dir":
                if not res.startswith("err"): fails.append(f"'{op}': opening a directory for writing must be refused, got {res}")
            else:
                if res != "ok": fails.append(f"'{op}': must create or truncate, got {res}")
                st[t[1]] = ("file", 0, 0, int(t[2])); bump(t[1])
        elif t[0] in ("stamp", "wstamp"):
            if t[0] == "wstamp":
                p = t[2]; cur = st.get(p)
                if cur and cur[0] == "dir":
                    if not res.startswith("err"): fails.append(f"'{op}': directory must be refused")
                    continue
                st[p] = ("file", int(t[3]), int(t[4]), int(t[5])); bump(p)
                if t[6] == "remove": st.pop(p, None); bump(p)
                c = t[1]
            else:
                c, p = t[1], t[3]
            m = re.match(r"s(\d+) (.*)", res)
            if not m: fails.append(f"'{op}': {res}"); continue
            cur = st.get(p)
            txt = m.group(2)
            if c == "E" and txt != ("true" if cur else "false"): fails.append(f"'{op}': exists stamp {txt} for state {cur}")
            if c == "M" and cur and cur[-1] is not None and txt != f"Some({cur[-1]})": fails.append(f"'{op}': modified stamp {txt} for state {cur}")
            if c in "MH" and not cur and txt != "None": fails.append(f"'{op}': stamp {txt} for an absent path")
            # routes agree: same text as any earlier stamp of the same checker taken of the same untouched state
            for (c2, p2, txt2, st2, v2) in stamps:
                if c2 == c and p2 == p and v2 == ver.get(p, 0) and txt2 != txt:
                    fails.append(f"'{op}': stamp {txt} differs from stamp {txt2} taken by another route of the same untouched state")
            stamps.append((c, p, txt, cur, ver.get(p, 0)))
        elif t[0] == "cstamp":
            par = st.get(t[2])
            if par and par[0] == "file":
                if res != "err": fails.append(f"'{op}': the parent is a regular file, the OS error must be returned, got {res}")
                continue
            m = re.match(r"s(\d+) (.*)", res)
            if not m: fails.append(f"'{op}': {res}"); continue
            txt = m.group(2)
            if (t[1] == "E" and txt != "false") or (t[1] in "MH" and txt != "None"): fails.append(f"'{op}': stamp {txt} for an absent path")
            stamps.append((t[1], t[2] + "/zz", txt, None, 0))
        elif t[0] == "ccheck":
            k = int(t[3])
            if k >= len(stamps): continue
            c, p, txt, st0, v0 = stamps[k]
            if c != t[1]: continue
            par = st.get(t[2])
            if par and par[0] == "file":
                if res != "err": fails.append(f"'{op}': the parent is a regular file, the OS error must be returned, got {res}")
                continue
            want = "consistent" if not st0 else "inconsistent"
            if c == "M" and st0 and st0[-1] is None: want = None
            if want is not None and res != want: fails.append(f"'{op}' against stamp #{k} ({txt} of {st0}): {res}, an absent path says {want}")
        elif t[0] == "check":
            k = int(t[3])
            if k >= len(stamps): continue
            c, p, txt, st0, v0 = stamps[k]
            if c != t[1]: continue
            cur = st.get(t[2])
            if t[2] == p and ver.get(p, 0) == v0:
                want = "consistent"
            elif c == "E": want = "consistent" if bool(cur) == bool(st0) else "inconsistent"
            elif c == "M":
                a = cur[-1] if cur else None; b = st0[-1] if st0 else None
                want = None if (a is None and cur) or (b is None and st0) else ("consistent" if a == b else "inconsistent")
            else:
                if not cur or not st0: want = "consistent" if (not cur and not st0) else "inconsistent"
                elif cur[0] == "file" and st0[0] == "file":
                    same = (cur[1] == st0[1]) and (cur[1] == 0 or content_sum(cur[1], cur[2]) == content_sum(st0[1], st0[2])) and \
                           [byte(cur[2], i) for i in range(min(cur[1], 64))] == [byte(st0[2], i) for i in range(min(st0[1], 64))]
                    want = "consistent" if same else "inconsistent"
                elif cur[0] == "dir" and st0[0] == "dir":
                    want = "inconsistent" if cur[1] != st0[1] else None     # same name set but touched: not claimed
                else: want = None                                           # change of kind: not claimed
            if want is not None and res != want:
                fails.append(f"'{op}' against stamp #{k} ({txt} of {st0}): {res}, documented behaviour says {want} (current state {cur})")
        elif t[0] == "readafter":
            cur = st.get(t[2])
            if cur and cur[0] == "file":
                want = f"len={cur[1]} sum={content_sum(cur[1], cur[2])}"
                if res != want: fails.append(f"'{op}': task read {res} after stamp_reader, the file holds {want} (reader not left at the start?)")
    return fails
