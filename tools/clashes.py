#!/usr/bin/env python3
"""clashes.py <new files...>: top-level declaration names of the given Lean files that also occur in another file of the
project (the umbrella module PieModel.lean imports everything, so names must be unique)."""
import re, glob, collections, sys, os
os.chdir(os.path.join(os.path.dirname(os.path.dirname(os.path.abspath(__file__))), "lean"))
decl = re.compile(r'^(?:@\[[^\]]*\]\s*)?(?:protected\s+|noncomputable\s+)?(theorem|def|lemma|structure|inductive|abbrev|class|instance)\s+([A-Za-z_][\w\.\']*)')
def names(files):
    d = collections.defaultdict(list)
    for f in files:
        ns = []
        for line in open(f).read().split('\n'):
            m = re.match(r'^namespace\s+(\S+)', line)
            if m: ns.append(m.group(1)); continue
            m = re.match(r'^end\s+(\S+)', line)
            if m and ns and ns[-1] == m.group(1): ns.pop(); continue
            m = decl.match(line)
            if m: d['.'.join(ns + [m.group(2)])].append(f)
    return d
new = [os.path.relpath(os.path.abspath(f)) for f in sys.argv[1:]]
old = [f for f in glob.glob('PieModel/**/*.lean', recursive=True) if f not in new and '/Audit/' not in f]
dn, do = names(new), names(old)
for c in sorted(set(dn) & set(do)): print(c, dn[c], do[c])
