#!/usr/bin/env python3
"""soak.py <prop> <n> [seed]: run n generated cases of a property's streams on both sides and print a summary of
model/implementation disagreements and oracle failures per stream (known-finding matches counted separately).
Writes no evidence and no replay files; for calibrating generators and oracles on the unchanged tree."""
import os, random, sys, collections
sys.path.insert(0, os.path.dirname(os.path.abspath(__file__)))
import vcommon as V, props as P, check as C

prop, n = sys.argv[1], int(sys.argv[2])
seed = int(sys.argv[3]) if len(sys.argv) > 3 else 7
cfg = P.PROPS[prop]
rng = random.Random(seed * 1000003 + sum(map(ord, prop)))
os.environ["VERIF_SOAK_N"] = str(n)
cases, _ = cfg["generate"](rng, "soak", seed)
impl, model = C.run_both(cases)
dis, ora = C.evaluate(prop, cfg, cases, impl, model)
per = collections.Counter(); known = collections.Counter(); unk = []
for c, fails in ora:
    io, mo = impl.get((c.kind, c.cid), []), model.get((c.kind, c.cid), [])
    kid = cfg.get("known_match", lambda *_: None)(c, io, mo)
    st = c.meta.get("stream", c.kind)
    if kid: known[(st, kid)] += 1
    else:
        per[st] += 1; unk.append((c, fails))
print(f"{prop}: {len(cases)} cases, {len(dis)} disagreements, {len(ora)} oracle failures; known: {dict(known)}; UNKNOWN per stream: {dict(per)}")
for c, d in dis[:3]:
    print("DIS", c.cid, d)
for c, f in unk[:4]:
    print("ORA", c.cid, f[:2]); print("   case:", " | ".join(c.body)[:1500])
