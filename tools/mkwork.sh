#!/bin/sh
# mkwork.sh <name>: fresh copy of the Lean project (library only) under /work/<name> for a proof agent
set -e
d=/work/$1
rm -rf "$d"; mkdir -p "$d"
cd /verif/lean
cp -r PieModel PieModel.lean lean-toolchain "$d"/
cat > "$d"/lakefile.toml <<'EOT'
name = "PieModel"
version = "0.1.0"
defaultTargets = ["PieModel"]

[[lean_lib]]
name = "PieModel"
EOT
cp /verif/notes/proof_plans.md /verif/notes/probe_topdown_soundness.lean.txt "$d"/
( cd "$d" && lake build 2>&1 | tail -1 )
