#!/usr/bin/env python3
"""seed_recheck.py [id ...]: re-run every check against each kept seeded change (patched copy via mutrun.py) and
update seeded/<id>/meta.json with what detects it now. With no ids: all seeds."""
import json, os, subprocess, sys
ids = sys.argv[1:] or sorted(os.listdir("/verif/seeded"))
for sid in ids:
    d = f"/verif/seeded/{sid}"
    if not os.path.exists(d + "/patch.diff"): continue
    meta0 = json.load(open(d + "/meta.json"))
    props = os.environ.get("SEED_PROPS", "").replace("OWN", meta0.get("property", ""))
    p = subprocess.run(f"python3 /verif/tools/mutrun.py patch {d}/patch.diff {props}", shell=True, stdout=subprocess.PIPE, stderr=subprocess.STDOUT, text=True)
    det = [l for l in p.stdout.splitlines() if l.startswith("== ")]
    meta = json.load(open(d + "/meta.json"))
    if props.strip():   # partial recheck: record separately, keep the full matrix
        meta["own_check"] = det[0] if det else p.stdout[-400:]
        json.dump(meta, open(d + "/meta.json", "w"), indent=1)
        print(sid, "own:", meta["own_check"]); continue
    meta["checks"] = det[0] if det else p.stdout[-400:]
    meta["violation_lines"] = [l.strip().replace(os.environ.get("MUTROOT", "/work/mutrun"), "<copy>") for l in p.stdout.splitlines() if "VIOLATION" in l][:6]
    json.dump(meta, open(d + "/meta.json", "w"), indent=1)
    print(sid, meta["checks"])
