"""Executable statements of the build properties, evaluated on the observations of the REAL crates
only (tracker stream, task-side log, returned outputs, store dump through the hook, resource
contents, from-scratch reference builds run on the real crates)."""
import re

PAIRS = {"build": None, "require": 1, "read": 1, "write": 1, "check_task": 1, "check_resource": 1, "execute": 1,
         "schedule_affected_by_task": 1, "check_task_require_task": 1, "schedule_affected_by_resource": 1,
         "check_task_read_resource": 1}


class Op:
    def __init__(self, text):
        self.text, self.ev, self.tl, self.et, self.composite, self.result, self.known = text, [], [], [], None, None, None


class Sess:
    def __init__(self):
        self.ops, self.errors, self.fs, self.store, self.pre = [], None, None, [], []


def parse(lines):
    """-> list of items: ('sess', Sess) | ('clean', dict) | ('bad', line). Sess.pre = external change
    lines seen since the previous item."""
    items, cur, op, clean = [], None, None, None
    for l in lines:
        if l == "op session":
            cur = Sess(); items.append(("sess", cur)); op = None; clean = None
        elif l.startswith("op req ") or l.startswith("op bu") or l == "op reqknown":
            op = Op(l[3:]); cur.ops.append(op)
        elif l.startswith("known "):
            if op is not None and op.text == "reqknown" and op.known is None and not op.ev:
                op.known = int(l[6:])
            else:
                op = Op("reqknown"); op.known = int(l[6:]); cur.ops.append(op)
        elif l.startswith("ev "): op.ev.append(l[3:])
        elif l.startswith("tl "): op.tl.append(l[3:])
        elif l.startswith("et "): op.et.append(l[3:])
        elif l == "et-index-mismatch": op.et.append("INDEX-MISMATCH")
        elif l.startswith("composite "): op.composite = l[10:]
        elif l.startswith("out ") or l.startswith("abort ") or l in ("done", "skipped"):
            if op is not None and op.result is None: op.result = l
        elif l == "op endsession": op = None
        elif l.startswith("errors "): cur.errors = l[7:]
        elif l.startswith("fs "): cur.fs = l[3:]
        elif l.startswith("st "): cur.store.append(l[3:])
        elif l.startswith("op clean"):
            clean = dict(op=l[3:], roots=None, exec=None, out=None, abort=None, fs=None); items.append(("clean", clean))
        elif l.startswith("cl roots "): clean["roots"] = plist(l[9:])
        elif l.startswith("cl exec "): clean["exec"] = plist(l[8:])
        elif l.startswith("cl out "): clean["out"] = plist(l[7:])
        elif l.startswith("cl abort "): clean["abort"] = l[9:]
        elif l.startswith("cl fs "): clean["fs"] = l[6:]
        elif l.startswith("bad-op") or l.startswith("harness-panic") or l.startswith("process-crash"):
            items.append(("bad", l))
    return items


def plist(s):
    s = s.strip()[1:-1]
    return [x for x in s.split(",") if x] if s else []


def kind_of(ev):
    w = ev.split(" ")[0]
    if w.endswith("_start"): return w[:-6], "start"
    if w.endswith("_end"): return w[:-4], "end"
    return w, "atom"


def subject(ev):
    t = ev.split(" ")
    return t[1] if len(t) > 1 else ""


def nesting(evs):
    """-> (errors, open_stack, tree) checking that every end closes the most recent unclosed start of
    the same kind and subject. Tolerates a read/write start left open by an Err returned to the task
    (the next event at that level is the execute_end of the enclosing task)."""
    errs, stack = [], []
    root = dict(ev="<root>", kids=[])
    node_stack = [root]
    for i, e in enumerate(evs):
        k, se = kind_of(e)
        if se == "start":
            n = dict(ev=e, kids=[], idx=i, end=None)
            node_stack[-1]["kids"].append(n); node_stack.append(n); stack.append((k, subject(e), i))
        elif se == "end":
            # tolerate unclosed read/write directly inside the execute being closed
            while stack and stack[-1][0] in ("read", "write") and k == "execute":
                stack.pop(); node_stack.pop()
            if not stack:
                errs.append(f"event {i} '{e}' closes nothing"); continue
            if stack[-1][0] != k or stack[-1][1] != subject(e):
                errs.append(f"event {i} '{e}' does not close the most recent unclosed start '{evs[stack[-1][2]]}'")
                continue
            stack.pop(); n = node_stack.pop(); n["end"] = e
        else:
            node_stack[-1]["kids"].append(dict(ev=e, kids=[], idx=i, end=e))
    return errs, stack, root


def store_graph(store_lines):
    """-> dict task -> dict(out, deps=[(kind,target,checker,stamp)], rank), and res -> incoming"""
    tasks, res = {}, {}
    for l in store_lines:
        f = l.split(" ")
        if len(f) > 1 and f[1].startswith("task="):
            name = f[1][5:]
            deps = []
            d = f[3][6:-1] if len(f) > 3 else ""
            for x in [y for y in d.split(";") if y]:
                m = re.match(r"(\w+)(?:\((.*)\))?$", x)
                kind = m.group(1)
                args = split_args(m.group(2)) if m.group(2) else []
                deps.append((kind, args))
            tasks[name] = dict(out=f[2][4:], deps=deps, rank=int(f[0][5:]))
        elif len(f) > 1 and f[1].startswith("res="):
            inc = [y for y in f[2][4:-1].split(";") if y]
            res[f[1][4:]] = inc
    return tasks, res


def split_args(s):
    out, depth, cur = [], 0, ""
    for ch in s:
        if ch == "(": depth += 1
        if ch == ")": depth -= 1
        if ch == "," and depth == 0:
            out.append(cur); cur = ""
        else:
            cur += ch
    out.append(cur)
    return out


def reach_req(tasks, a):
    seen, st = set(), [a]
    while st:
        x = st.pop()
        for (k, args) in tasks.get(x, dict(deps=[]))["deps"]:
            if k == "Require" and args[0] not in seen:
                seen.add(args[0]); st.append(args[0])
    return seen


# ------------------------------------------------------------------------------------------ oracles
def c01(case, lines):
    """session outputs and resource contents == from-scratch build of the same roots (well-formed)."""
    fails, items = [], parse(lines)
    for i, (k, it) in enumerate(items):
        if k == "bad" and not it.startswith("bad-op"): fails.append(f"harness: {it}")
        if k != "clean" or i == 0 or items[i - 1][0] != "sess" or not it["op"].startswith("clean "): continue
        s = items[i - 1][1]
        reqs = [o for o in s.ops if o.text.startswith("req ")]
        if len(reqs) != len(it["roots"] or []): continue    # (shrunk case: session and reference build no longer correspond)
        if any(o.result is None or not o.result.startswith("out ") for o in reqs):
            if it["abort"] is None:
                fails.append(f"session {i}: incremental build aborted/skipped ({[o.result for o in reqs]}) but the from-scratch build returned")
            continue
        outs = [o.result[4:] for o in reqs]
        if it["abort"] is not None:
            fails.append(f"session {i}: from-scratch build aborts ({it['abort']}) but incremental returned {outs}")
        elif outs != it["out"]:
            fails.append(f"session {i}: incremental outputs {outs} != from-scratch outputs {it['out']} for roots {it['roots']}")
        elif s.fs != it["fs"]:
            fails.append(f"session {i}: resource contents after incremental build {s.fs} != after from-scratch build {it['fs']}")
    return fails


def session_gaps(case):
    """per session of the case text (in order): were there external changes (set/del) since the previous session?"""
    gaps, changed = [], False
    for l in case.body:
        w = l.split(" ")[0]
        if w in ("set", "del"): changed = True
        elif w == "session":
            gaps.append(changed); changed = False
    return gaps


def c02(case, lines, exact=False, idem_sessions=False):
    fails, items = [], parse(lines)
    for i, (k, s) in enumerate(items):
        if k != "sess": continue
        per = {}
        seen_roots = {}
        for o in s.ops:
            if not (o.text.startswith("req ") or o.text == "reqknown"): continue
            for j, e in enumerate(o.ev):
                if e.startswith("execute_start "):
                    t = subject(e)
                    per[t] = per.get(t, 0) + 1
                    prev = o.ev[j - 1] if j else ""
                    okprev = (prev.startswith("require_start " + t + " ") or prev.startswith("check_task_start " + t + " ")
                              or (prev.startswith(("check_resource_end", "check_task_end")) and not prev.endswith(" consistent")))
                    if not okprev:
                        fails.append(f"session {i} '{o.text}': {t} executed although the preceding event '{prev}' is neither its first require nor an inconsistent/failed dependency check")
            root = o.text if o.known is None else f"reqknown {o.known}"
            if root in seen_roots and any(e.startswith("execute_start") for e in o.ev):
                fails.append(f"session {i}: requiring '{root}' again with nothing changed executed {[e for e in o.ev if e.startswith('execute_start')]}")
            if o.result and o.result.startswith("out "): seen_roots[root] = True
        for t, n in per.items():
            if n > 1: fails.append(f"session {i}: {t} executed {n} times in one session")
        if exact and i + 1 < len(items) and items[i + 1][0] == "clean" and items[i + 1][1]["exec"] is not None:
            ex = {"Tsk(%s)" % x for x in items[i + 1][1]["exec"]}
            extra = sorted(set(per) - ex)
            if extra and items[i + 1][1]["abort"] is None:
                fails.append(f"session {i}: executed {extra} which the from-scratch build of the current state does not execute (exact checkers)")
    # a whole session repeated with nothing changed in between executes nothing (programs that are well-formed apart
    # from an injected panic; sessions without bottom-up build and without checker errors)
    if idem_sessions:
        gaps = session_gaps(case)
        sess = [s for k, s in items if k == "sess"]
        if len(gaps) == len(sess):
            for i in range(1, len(sess)):
                a, b = sess[i - 1], sess[i]
                if gaps[i] or any(o.text.startswith("bu") or o.text == "reqknown" for o in a.ops + b.ops): continue
                if not a.ops or not all(o.result and o.result.startswith("out ") for o in a.ops): continue
                if any(" error(" in e for o in b.ops for e in o.ev): continue
                done = {o.text for o in a.ops}
                for o in b.ops:
                    if o.text in done:
                        ex = [e for e in o.ev if e.startswith("execute_start")]
                        if ex: fails.append(f"session {i}: '{o.text}' repeated with nothing changed since the previous session, which returned, executed {ex}")
    # validation order = creation order
    prev_store = None
    for i, (k, s) in enumerate(items):
        if k != "sess": continue
        if prev_store is not None:
            tasks, _ = store_graph(prev_store)
            executed = set()
            for o in s.ops:
                errs, _, root = nesting(o.ev)
                def walk(n):
                    e = n["ev"]
                    if e.startswith(("require_start", "check_task_start")):
                        t = subject(e)
                        checks = [c for c in n["kids"] if c["ev"].startswith(("check_task_start", "check_resource_start"))]
                        if checks and t in tasks and t not in executed:
                            want = [(a[0]) for (kd, a) in tasks[t]["deps"] if kd != "Reserved"]
                            got = [subject(c["ev"]) for c in checks]
                            if got != want[:len(got)]:
                                fails.append(f"session {i}: dependencies of {t} validated in order {got}, recorded (creation) order is {want}")
                    if e.startswith("execute_start"): executed.add(subject(e))
                    for c in n["kids"]: walk(c)
                walk(root)
        prev_store = s.store
    return fails


def c03(case, lines):
    # programs whose resource checkers can fail at validation time (stream buf): a task whose own dependency check
    # returns an error is re-executed whenever it is validated (C18), also right after the bottom-up build; every other
    # execution there is still a failure
    allow_err = case.meta.get("stream") == "buf"
    fails, items = [], parse(lines)
    for i, (k, s) in enumerate(items):
        if k != "sess" or not s.ops or s.ops[0].text != "reqknown": continue
        if i == 0 or items[i - 1][0] != "sess" or not any(o.text.startswith("bu") for o in items[i - 1][1].ops): continue
        if any(o.result and o.result.startswith("abort") for o in items[i - 1][1].ops): continue
        outs = []
        for o in s.ops:
            ex = [e for j, e in enumerate(o.ev) if e.startswith("execute_start") and not (
                allow_err and j and o.ev[j - 1].startswith("check_resource_end") and " error(" in o.ev[j - 1])]
            if ex: fails.append(f"after bottom-up build (session {i - 1}): requiring known task {o.known} executed {ex}")
            outs.append(o.result[4:] if o.result and o.result.startswith("out ") else o.result)
        if i + 1 < len(items) and items[i + 1][0] == "clean":
            c = items[i + 1][1]
            if c["abort"] is None and (outs != c["out"] or s.fs != c["fs"]):
                fails.append(f"after bottom-up build (session {i - 1}): outputs of known tasks {outs} / contents {s.fs} != from-scratch {c['out']} / {c['fs']} (roots {c['roots']})")
    return fails


def c04(case, lines):
    fails, items = [], parse(lines)
    prev_store = None
    for i, (k, s) in enumerate(items):
        if k != "sess": continue
        for o in s.ops:
            if not o.text.startswith("bu"): continue
            tasks, _ = store_graph(prev_store or [])
            queued, count, done = [], {}, set()
            depth = 0
            for j, e in enumerate(o.ev):
                if e.startswith("schedule_task "):
                    t = subject(e)
                    if t not in queued: queued.append(t)
                elif e.startswith("execute_start "):
                    t = subject(e)
                    count[t] = count.get(t, 0) + 1
                    prev = o.ev[j - 1]
                    if t in queued:
                        queued.remove(t)
                        # order: no still-queued task is a (recorded) dependency of t
                        for u in queued:
                            if u in reach_req(tasks, t) and u not in done and t not in done:
                                fails.append(f"session {i}: {t} executed while its scheduled dependency {u} was still waiting")
                    elif not prev.startswith("require_start " + t + " "):
                        fails.append(f"session {i}: {t} executed in a bottom-up build without being scheduled or newly required (preceded by '{prev}')")
                    elif t in tasks and tasks[t]["out"] != "out=None" and tasks[t]["out"].startswith("Some"):
                        fails.append(f"session {i}: {t} has an output and was not scheduled, but was executed when required")
                elif e.startswith("execute_end "):
                    done.add(subject(e))
            for t, n in count.items():
                if n > 1: fails.append(f"session {i}: {t} executed {n} times in one bottom-up build")
        prev_store = s.store
    return fails


def dump_invariants(case, lines, want):
    """C05 / C06: store-dump invariants of every build that returned."""
    fails, items = [], parse(lines)
    for i, (k, s) in enumerate(items):
        if k != "sess": continue
        aborted = any(o.result and o.result.startswith("abort") for o in s.ops)
        tasks, res = store_graph(s.store)
        for r, inc in res.items():
            writers = [x[6:-1] for x in inc if x.startswith("Write(")]
            readers = [x[5:-1] for x in inc if x.startswith("Read(")]
            if want == "C06" and len(set(writers)) > 1:
                fails.append(f"session {i}: resource {r} has writers {writers}")
            if want == "C05" and not aborted:
                for w in writers:
                    for x in readers:
                        if x == w or w not in reach_req(tasks, x):
                            fails.append(f"session {i}: build returned but {x} reads {r} written by {w} without (transitively) requiring it")
    return fails


def abort_content(case, lines):
    """C05/C06: an abort raised while validating a `Context::write` leaves the resource unmodified.
    Uses exact (MapEqualsChecker) write stamps and external `set`/`del` lines to know the value before."""
    fails, items = [], parse(lines)
    val = {}
    body_sets = [l for l in case.body if l.startswith(("set ", "del ", "session"))]
    # replay: walk case body and items in parallel
    si = iter(k for k in items if k[0] == "sess")
    for l in case.body:
        t = l.split(" ")
        if t[0] == "set": val[t[1]] = t[2]
        elif t[0] == "del": val.pop(t[1], None)
        elif t[0] == "session":
            try: _, s = next(si)
            except StopIteration: break
            for oi, o in enumerate(s.ops):
                for e in o.ev:
                    if e.startswith(("write_end MK(", "write_end TR(")) and " MapEqualsChecker " in e:
                        r = e.split(" ")[1][3:-1]; st = e.split(" ")[3]
                        if st == "None": val.pop(r, None)
                        else: val[r] = st[5:-1]
                # the content is observed at the END of the session: only valid when nothing ran after the abort (a caller
                # that goes on using the session after the abort may legitimately write the resource again)
                later = any(x.ev for x in s.ops[oi + 1:])
                if not later and o.result in ("abort hidden", "abort overlap") and o.ev and o.ev[-1].startswith(("write_start MK(", "write_start TR(")):
                    r = o.ev[-1].split(" ")[1][3:-1]
                    fsd = dict(x.split(":") for x in plist(s.fs or "[]"))
                    kind = [ln for ln in case.body if ln.startswith("task ")]
                    # only claimed for Context::write; `wrote` (written_to) has modified already
                    if fsd.get(r) != val.get(r) and not case.meta.get("uses_wrote", True):
                        fails.append(f"{o.result} while validating a write to resource {r}, but its content changed from {val.get(r)} to {fsd.get(r)}")
            fsd = dict(x.split(":") for x in plist(s.fs or "[]"))
            val = dict(fsd)
    return fails


def c17(case, lines):
    fails, items = [], parse(lines)
    for i, (k, s) in enumerate(items):
        if k != "sess": continue
        for o in s.ops:
            if o.result == "skipped": continue
            errs, stack, root = nesting(o.ev)
            fails += [f"session {i} '{o.text}': {e}" for e in errs]
            ok = o.result and (o.result.startswith("out") or o.result == "done")
            if ok and [x for x in stack if x[0] not in ("read", "write")]:
                fails.append(f"session {i} '{o.text}': operation completed but starts remain open: {stack}")
            ex = [("enter " + subject(e)[4:-1]) if e.startswith("execute_start") else ("exit " + subject(e)[4:-1] + " " + e.split(" ")[2])
                  for e in o.ev if e.startswith(("execute_start", "execute_end"))]
            if ex != o.tl:
                fails.append(f"session {i} '{o.text}': execute events {ex} != task-side log {o.tl}")
            if ok and o.result.startswith("out "):
                ends = [e for e in o.ev if e.startswith("require_end")]
                if not ends or ends[-1].split(" ")[-1] != o.result[4:]:
                    fails.append(f"session {i} '{o.text}': returned {o.result[4:]} but the last require_end carries {ends[-1] if ends else None}")
            for c in iter_nodes(root):
                if c["ev"].startswith("require_start") and c.get("end"):
                    pass
            if o.composite != "same":
                fails.append(f"session {i} '{o.text}': composite tracker children received different streams")
        # EventTracker content
        allev = [e for o in s.ops for e in o.ev]
        pos = 0
        for o in s.ops:
            pos += len(o.ev)
            if o.result == "skipped": continue
            upto = allev[:pos]
            lb = max([j for j, e in enumerate(upto) if e == "build_start"], default=None)
            if lb is None: continue
            kept = [e for e in upto[lb:] if e.split(" ")[0] in ("build_start", "build_end", "require_start", "require_end", "read_start",
                                                               "read_end", "write_start", "write_end", "execute_start", "execute_end")]
            want = [f"{j} {e}" for j, e in enumerate(kept)]
            if o.et != want:
                fails.append(f"session {i} '{o.text}': EventTracker holds {o.et[:6]}..., stream says {want[:6]}...")
    return fails


def iter_nodes(n):
    yield n
    for c in n["kids"]:
        yield from iter_nodes(c)


def c18(case, lines):
    fails, items = [], parse(lines)
    for i, (k, s) in enumerate(items):
        if k != "sess": continue
        errs = []
        for o in s.ops:
            for j, e in enumerate(o.ev):
                m = re.search(r" error\((-?\d+)\)$", e)
                if m and e.startswith(("check_resource_end", "check_task_read_resource_end")):
                    errs.append(f"E({m.group(1)})")
                    nxt = o.ev[j + 1] if j + 1 < len(o.ev) else ""
                    if e.startswith("check_resource_end") and not nxt.startswith("execute_start"):
                        fails.append(f"session {i}: checker error at '{e}' not followed by re-execution of the owner (next: '{nxt}')")
                    if e.startswith("check_task_read_resource_end") and not nxt.startswith("schedule_task " + e.split(" ")[1]):
                        fails.append(f"session {i}: checker error at '{e}' but the owner was not scheduled (next: '{nxt}')")
            if o.result and o.result.startswith("abort") and errs and case.meta.get("no_abort_expected"):
                fails.append(f"session {i}: build aborted ({o.result}) in a program whose only fault is a failing checker")
        if s.errors is not None and s.errors != "n/a" and plist(s.errors) != errs:
            fails.append(f"session {i}: dependency_check_errors {s.errors} != checker errors in validation events {errs}")
    return fails


def c19(case, lines):
    fails, items = [], parse(lines)
    aborted_before = False
    for i, (k, it) in enumerate(items):
        if k == "bad" and ("panic" in it or "crash" in it): fails.append(f"harness: {it}")
        if k != "sess": continue
        aborted_here = False
        for o in it.ops:
            if (aborted_before or aborted_here) and o.result == "abort bug":
                fails.append(f"session {i} '{o.text}': internal-invariant (BUG) panic after an aborted build")
            if o.result and o.result.startswith("abort"): aborted_here = True
            if o.result and o.result.startswith("abort other"):
                fails.append(f"session {i} '{o.text}': unexpected panic {o.result}")
        if any(o.result and o.result.startswith("abort") for o in it.ops):
            # after an earlier abort, a diagnosed violation must still exist: the from-scratch build of ALL known tasks aborts too
            ab = [o.result for o in it.ops if o.result in ("abort cyclic", "abort hidden", "abort overlap")]
            cn = [x[1] for x in items[i + 1:i + 3] if x[0] == "clean" and x[1]["op"] == "cleannodes"]
            if aborted_before and ab and cn and cn[0]["abort"] is None:
                fails.append(f"session {i} (after an earlier abort): aborted again with '{ab[0]}' but the from-scratch build of all known tasks "
                             f"{cn[0]['roots']} in the same state succeeds (the violation no longer exists)")
            aborted_before = True
        elif aborted_before and i + 1 < len(items) and items[i + 1][0] == "clean" and items[i + 1][1]["op"].startswith("clean "):
            c = items[i + 1][1]
            outs = [o.result[4:] for o in it.ops if o.text.startswith("req ") and o.result and o.result.startswith("out ")]
            nreq = len([o for o in it.ops if o.text.startswith("req ")])
            if c["abort"] is None and nreq == len(c["roots"] or []) and (outs != c["out"] or it.fs != c["fs"]):
                fails.append(f"session {i} (after an earlier abort): outputs {outs} / contents {it.fs} != from-scratch {c['out']} / {c['fs']}")
    return fails


def c20(case, lines):
    fails, items = [], parse(lines)
    for i, (k, s) in enumerate(items):
        if k != "sess": continue
        ab = [o.result for o in s.ops if o.result in ("abort cyclic", "abort hidden", "abort overlap")]
        if not ab: continue
        if i + 1 < len(items) and items[i + 1][0] == "clean" and items[i + 1][1]["op"] == "cleannodes":
            c = items[i + 1][1]
            if c["abort"] is None:
                fails.append(f"session {i}: incremental build aborted with '{ab[0]}' but the from-scratch build of all known tasks {c['roots']} in the same state succeeds")
    return fails


def c07(case, lines):
    fails, items = [], parse(lines)
    for i, (k, s) in enumerate(items):
        if k == "bad" and not s.startswith("bad-op"): fails.append(f"harness: {s}")
        if k != "sess": continue
        for o in s.ops:
            # no task is entered while it is still executing (C07_no_reentry_*, C07_bu_no_reentry_*: `NoReentry`).  Two
            # executions one after the other in one bottom-up build are C04's subject (finding K7), not a re-entry.
            stack = []
            for t in o.tl:
                w = t.split(" ")
                if w[0] == "enter":
                    if w[1] in stack: fails.append(f"session {i} '{o.text}': task {w[1]} entered while it is still executing (stack {stack})")
                    stack.append(w[1])
                elif w[0] == "exit" and stack and stack[-1] == w[1]:
                    stack.pop()
            if case.meta.get("expect_cyclic") and o.text.startswith("req ") and int(o.text[4:]) in case.meta["expect_cyclic"]:
                if o.result not in ("abort cyclic", "skipped"):
                    fails.append(f"session {i} '{o.text}': the require structure contains a cycle through this task but the build ended with '{o.result}'")
    return fails


def c08(case, lines):
    """after every session: the recorded dependencies of each task executed in it are exactly the dependency operations
    of its latest execution (first occurrence per target), each with the checker passed and the stamp taken."""
    fails, items = [], parse(lines)
    for i, (k, s) in enumerate(items):
        if k != "sess": continue
        last = {}
        for o in s.ops:
            errs, stack, root = nesting(o.ev)
            for n in iter_nodes(root):
                if n["ev"].startswith("execute_start") and n.get("end"):
                    ops = []
                    for c in n["kids"]:
                        e, end = c["ev"], c.get("end")
                        if not end or end == e: continue
                        t = end.split(" ")
                        if e.startswith("require_start"): ops.append(("Require", t[1], t[2], t[3]))
                        elif e.startswith("read_start"): ops.append(("Read", t[1], t[2], t[3]))
                        elif e.startswith("write_start"): ops.append(("Write", t[1], t[2], t[3]))
                    last[subject(n["ev"])] = ops
        tasks, _ = store_graph(s.store)
        for t, ops in last.items():
            if t not in tasks or tasks[t]["out"] == "out=None" or tasks[t]["out"].endswith("None"): continue
            targets = []
            for op in ops:
                if op[1] not in targets: targets.append(op[1])
            rec = [(kd, a) for (kd, a) in tasks[t]["deps"]]
            rec_t = [a[0] for (_, a) in rec]
            if rec_t != targets:
                fails.append(f"session {i}: {t} performed dependency operations on {targets} (first-occurrence order) but the store holds {rec_t}")
                continue
            for (kd, a) in rec:
                performed = [(op[0], op[2], op[3]) for op in ops if op[1] == a[0]]
                if (kd, a[1], a[2]) not in performed:
                    fails.append(f"session {i}: {t} holds {kd}({','.join(a)}) but performed {performed} on {a[0]}")
                elif len(set((p[0], p[1]) for p in performed)) > 1:
                    fails.append(f"session {i}: {t} performed {performed} on {a[0]} but only {kd}({','.join(a)}) is recorded")
    return fails


HARNESS_CHK = ("ParityRes", "ExistsRes", "AlwaysRes", "FailWhen", "FailStampWhen", "ParityOut")


def c09(case, lines):
    """instrumented harness checkers: every stamp/verdict reported in an event is what the dependency's own checker
    answered, it was asked with the stamp recorded at creation, and stamps are taken at the right time (reader content
    = what the task then saw; writer stamp = content after the task's write)."""
    fails = []
    cur_ev, cur_ck = [], []
    blocks = []
    for l in lines:
        if l.startswith("op "):
            if cur_ev or cur_ck: blocks.append((cur_ev, cur_ck))
            cur_ev, cur_ck = [], []
        elif l.startswith("ev "): cur_ev.append(l[3:])
        elif l.startswith("i: ck "): cur_ck.append(l[6:])
        elif l.startswith("known "):
            if cur_ev or cur_ck: blocks.append((cur_ev, cur_ck))
            cur_ev, cur_ck = [], []
    if cur_ev or cur_ck: blocks.append((cur_ev, cur_ck))
    for evs, cks in blocks:
        from_ev, from_ck = [], []
        for e in evs:
            t = e.split(" ")
            if len(t) < 3 or not t[2].startswith(HARNESS_CHK): continue
            k = t[0]
            if k in ("read_end", "write_end"): from_ev.append(("rstamp", t[2], t[1], t[3]))
            elif k == "require_end": from_ev.append(("ostamp", t[2], t[3]))
            elif k in ("check_resource_end", "check_task_read_resource_end"):
                from_ev.append(("rcheck", t[2], t[3], t[4]))       # checker, stamp, verdict (resource name not in bottom-up event)
            elif k in ("check_task_end", "check_task_require_task_end"): from_ev.append(("ocheck", t[2], t[3], t[4]))
        last_stamp_reader = {}
        last_written = {}
        for c in cks:
            t = c.split(" ")
            if t[0] in ("stamp_reader", "stamp_writer", "stamp"):
                res = t[-1]
                if not res.startswith("error") and t[1] != "MapEqualsChecker": from_ck.append(("rstamp", t[1], t[2], res))
                if t[0] == "stamp_reader": last_stamp_reader[t[2]] = t[3]
                if t[0] in ("stamp_writer", "stamp") and t[2] in last_written and last_written[t[2]] != t[3]:
                    fails.append(f"write stamp of {t[2]} taken on content {t[3]} but the task wrote {last_written[t[2]]} (stamp not taken after the write)")
            elif t[0] == "rcheck":
                if t[1] != "MapEqualsChecker": from_ck.append(("rcheck", t[1], t[4], t[-1]))
            elif t[0] == "ostamp": from_ck.append(("ostamp", t[1], t[-1]))
            elif t[0] == "ocheck": from_ck.append(("ocheck", t[1], t[3], t[-1]))
            elif t[0] == "saw":
                if t[1] in last_stamp_reader and last_stamp_reader.pop(t[1]) != t[2]:
                    fails.append(f"reader of {t[1]} was stamped on a content different from what the task then read ({t[2]})")
            elif t[0] == "writes": last_written[t[1]] = t[2]
        if from_ev != from_ck:
            d = next((i for i, (a, b) in enumerate(zip(from_ev, from_ck)) if a != b), min(len(from_ev), len(from_ck)))
            fails.append(f"stamps/verdicts reported in events differ from what the dependencies' own checkers were asked and answered: "
                         f"event #{d} {from_ev[d] if d < len(from_ev) else None} vs checker call {from_ck[d] if d < len(from_ck) else None}")
    return fails
