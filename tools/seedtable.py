#!/usr/bin/env python3
"""seedtable.py: writes seeded/README.md — one row per kept seeded change: which property it was written against, where it
changes the code, and which checks report it (from seeded/<id>/meta.json, written by seed_verify.py / seed_recheck.py)."""
import json, os, re
root = os.path.join(os.path.dirname(os.path.dirname(os.path.abspath(__file__))), "seeded")
rows, own_ok, n = [], 0, 0
for d in sorted(os.listdir(root)):
    mf = os.path.join(root, d, "meta.json")
    if not os.path.exists(mf): continue
    m = json.load(open(mf))
    patch = open(os.path.join(root, d, "patch.diff")).read()
    files = sorted(set(re.findall(r"^\+\+\+ b/(\S+)", patch, re.M)))
    fns = sorted(set(re.findall(r"fn (\w+)", patch)))[:4]
    full = re.findall(r"'(C\d\d)'", m.get("checks", ""))
    own = re.findall(r"'(C\d\d)'", m.get("own_check", "")) or full
    prop = m.get("property", d.split("-")[0])
    det_own = prop in own or prop in full
    n += 1; own_ok += det_own
    need = (m.get("needs_to_manifest", "") or "").strip().split("\n")[0].lstrip("# ").strip()[:140]
    rows.append(f"| {d} | {prop} | {', '.join(f.replace('pie/src/', '').replace('graph/src/', 'graph:') for f in files)} ({', '.join(fns)}) | {need} | "
                f"{'yes' if det_own else '**no**' + (' (' + m['note'] + ')' if m.get('note') else '')} | {' '.join(full) if len(full) > 1 else '(own check only run)'} |")
with open(os.path.join(root, "README.md"), "w") as f:
    f.write("# Seeded property-breaking changes\n\nWritten by independent sub-agents that saw only the text of one property and a scratch worktree of /repo; each was confirmed "
            "(compiles, existing suites pass, its demonstration passes without and fails with the change) before being kept. `patch.diff`, `demo.rs`, `meta.json` per directory.\n"
            f"\n{own_ok} of {n} are reported by the quick check of the property they were written against.\n\n"
            "| id | property | site | what it is / needs | own quick check reports it | all quick checks that report it |\n|---|---|---|---|---|---|\n")
    f.write("\n".join(rows) + "\n")
print(own_ok, n)
