#!/bin/sh
# Build the framework from files on disk only (offline): Lean model + proofs + driver, Rust harness.
set -e
cd "$(dirname "$0")"
( cd lean && lake build PieModel driver )
( cd harness && CARGO_NET_OFFLINE=true cargo build --release --offline )
