//! Harness-side checkers implementing the same table as the model's `stdSem`
//! (/verif/lean/PieModel/Build/StdSem.lean). Every call is logged (C09).
use std::cell::RefCell;
use std::collections::hash_map::Entry;
use std::collections::HashMap;
use std::convert::Infallible;
use std::fmt;

use pie::resource::map::{MapKey, MapWriter};
use pie::{OutputChecker, Resource, ResourceChecker, ResourceState};

thread_local! {
  pub static CHKLOG: RefCell<Vec<String>> = RefCell::new(Vec::new());
}
fn log(s: String) { CHKLOG.with(|l| l.borrow_mut().push(s)); }

#[derive(Clone, PartialEq, Eq, Hash, Debug)]
pub struct MK(pub u32);
impl MapKey for MK { type Value = i64; }

/// A second resource family whose writer TRUNCATES when opened (like a file opened with create+truncate): opening it
/// before a write has been validated is observable. Resource ids >= 100 in case files.
#[derive(Clone, PartialEq, Eq, Hash, Debug)]
pub struct TR(pub u32);
pub struct TrWriter<'r> { map: &'r mut HashMap<u32, i64>, key: u32 }
impl TrWriter<'_> {
  pub fn get(&self) -> Option<i64> { self.map.get(&self.key).copied() }
  pub fn set(&mut self, v: Option<i64>) { match v { Some(x) => { self.map.insert(self.key, x); } None => { self.map.remove(&self.key); } } }
}
impl Resource for TR {
  type Reader<'rs> = Option<i64>;
  type Writer<'r> = TrWriter<'r>;
  type Error = Infallible;
  fn read<'rs, RS: ResourceState<Self>>(&self, state: &'rs mut RS) -> Result<Option<i64>, Infallible> {
    Ok(state.get_or_set_default::<HashMap<u32, i64>>().get(&self.0).copied())
  }
  fn write<'r, RS: ResourceState<Self>>(&'r self, state: &'r mut RS) -> Result<TrWriter<'r>, Infallible> {
    let map = state.get_or_set_default_mut::<HashMap<u32, i64>>();
    map.remove(&self.0); // truncate on open
    Ok(TrWriter { map, key: self.0 })
  }
}

pub type Out = Result<i64, i64>;
pub fn enc(n: i64) -> Out { if n >= 0 { Ok(n) } else { Err(n) } }
pub fn dec(o: &Out) -> i64 { match o { Ok(n) | Err(n) => *n } }

#[derive(Clone, PartialEq, Eq, Hash, Debug)]
pub struct ChkErr(pub i64);
impl fmt::Display for ChkErr { fn fmt(&self, f: &mut fmt::Formatter<'_>) -> fmt::Result { write!(f, "E({})", self.0) } }
impl std::error::Error for ChkErr {}

pub trait Code { fn code(&self) -> i64; }
impl Code for Infallible { fn code(&self) -> i64 { match *self {} } }
impl Code for ChkErr { fn code(&self) -> i64 { self.0 } }

#[derive(Default, Copy, Clone, Eq, PartialEq, Hash, Debug)]
pub struct ParityOut;
impl OutputChecker<Out> for ParityOut {
  type Stamp = Option<i64>;
  fn stamp(&self, output: &Out) -> Self::Stamp {
    let s = Some(dec(output).rem_euclid(2));
    log(format!("ostamp ParityOut {:?} -> {:?}", output, s));
    s
  }
  fn check(&self, output: &Out, stamp: &Self::Stamp) -> Option<impl fmt::Debug> {
    let s = Some(dec(output).rem_euclid(2));
    let r = if s != *stamp { Some(s) } else { None };
    log(format!("ocheck ParityOut {:?} {:?} -> {}", output, stamp, if r.is_none() { "consistent" } else { "inconsistent" }));
    r
  }
}

fn current<RS: ResourceState<MK>>(key: &MK, state: &mut RS) -> Option<i64> {
  key.read(state).unwrap().copied()
}

macro_rules! res_checker {
  ($name:ident, $stamp:ty, $err:ty, |$slf:ident, $v:ident| $core:expr, stamp_fail: |$s2:ident, $v2:ident| $sfail:expr, check_fail: |$s3:ident, $v3:ident| $cfail:expr) => {
    impl ResourceChecker<MK> for $name {
      type Stamp = $stamp;
      type Error = $err;
      fn stamp<RS: ResourceState<MK>>(&self, key: &MK, state: &mut RS) -> Result<Self::Stamp, Self::Error> {
        let v = current(key, state);
        self.mk_stamp("stamp", key, v)
      }
      fn stamp_reader(&self, key: &MK, value: &mut Option<&i64>) -> Result<Self::Stamp, Self::Error> {
        let v = value.copied();
        self.mk_stamp("stamp_reader", key, v)
      }
      fn stamp_writer(&self, key: &MK, writer: MapWriter<'_, MK>) -> Result<Self::Stamp, Self::Error> {
        let v = writer.get().copied();
        self.mk_stamp("stamp_writer", key, v)
      }
      #[allow(refining_impl_trait)]
      fn check<RS: ResourceState<MK>>(&self, key: &MK, state: &mut RS, stamp: &Self::Stamp) -> Result<Option<Self::Stamp>, Self::Error> {
        let v = current(key, state);
        let $s3 = self; let $v3 = v;
        if let Some(e) = $cfail {
          log(format!("rcheck {:?} {:?} {:?} {:?} -> error({})", self, key, v, stamp, e.code()));
          return Err(e);
        }
        let $slf = self; let $v = v;
        let s: $stamp = $core;
        let r = if s != *stamp { Some(s) } else { None };
        log(format!("rcheck {:?} {:?} {:?} {:?} -> {}", self, key, v, stamp, if r.is_none() { "consistent" } else { "inconsistent" }));
        Ok(r)
      }
      fn wrap_error(&self, error: Infallible) -> Self::Error { match error {} }
    }
    impl ResourceChecker<TR> for $name {
      type Stamp = $stamp;
      type Error = $err;
      fn stamp<RS: ResourceState<TR>>(&self, key: &TR, state: &mut RS) -> Result<Self::Stamp, Self::Error> {
        let v = key.read(state).unwrap();
        self.mk_stamp("stamp", key, v)
      }
      fn stamp_reader(&self, key: &TR, value: &mut Option<i64>) -> Result<Self::Stamp, Self::Error> {
        let v = *value;
        self.mk_stamp("stamp_reader", key, v)
      }
      fn stamp_writer(&self, key: &TR, writer: TrWriter<'_>) -> Result<Self::Stamp, Self::Error> {
        let v = writer.get();
        self.mk_stamp("stamp_writer", key, v)
      }
      #[allow(refining_impl_trait)]
      fn check<RS: ResourceState<TR>>(&self, key: &TR, state: &mut RS, stamp: &Self::Stamp) -> Result<Option<Self::Stamp>, Self::Error> {
        let v = key.read(state).unwrap();
        let $s3 = self; let $v3 = v;
        if let Some(e) = $cfail {
          log(format!("rcheck {:?} {:?} {:?} {:?} -> error({})", self, key, v, stamp, e.code()));
          return Err(e);
        }
        let $slf = self; let $v = v;
        let s: $stamp = $core;
        let r = if s != *stamp { Some(s) } else { None };
        log(format!("rcheck {:?} {:?} {:?} {:?} -> {}", self, key, v, stamp, if r.is_none() { "consistent" } else { "inconsistent" }));
        Ok(r)
      }
      fn wrap_error(&self, error: Infallible) -> Self::Error { match error {} }
    }
    impl $name {
      fn mk_stamp<K: std::fmt::Debug>(&self, route: &str, key: &K, v: Option<i64>) -> Result<$stamp, $err> {
        let $s2 = self; let $v2 = v;
        if let Some(e) = $sfail {
          log(format!("{} {:?} {:?} {:?} -> error({})", route, self, key, v, e.code()));
          return Err(e);
        }
        let $slf = self; let $v = v;
        let s: $stamp = $core;
        log(format!("{} {:?} {:?} {:?} -> {:?}", route, self, key, v, s));
        Ok(s)
      }
    }
  };
}

#[derive(Default, Copy, Clone, Eq, PartialEq, Hash, Debug)]
pub struct ParityRes;
res_checker!(ParityRes, Option<i64>, Infallible, |_s, v| v.map(|x| x.rem_euclid(2)),
  stamp_fail: |_s, _v| None::<Infallible>, check_fail: |_s, _v| None::<Infallible>);

#[derive(Default, Copy, Clone, Eq, PartialEq, Hash, Debug)]
pub struct ExistsRes;
res_checker!(ExistsRes, bool, Infallible, |_s, v| v.is_some(),
  stamp_fail: |_s, _v| None::<Infallible>, check_fail: |_s, _v| None::<Infallible>);

#[derive(Default, Copy, Clone, Eq, PartialEq, Hash, Debug)]
pub struct AlwaysRes;
res_checker!(AlwaysRes, (), Infallible, |_s, _v| (),
  stamp_fail: |_s, _v| None::<Infallible>, check_fail: |_s, _v| None::<Infallible>);

/// Exact checker for the `TR` family (plays the role of `MapEqualsChecker`, and prints like it).
#[derive(Default, Copy, Clone, Eq, PartialEq, Hash)]
pub struct ExactRes;
impl fmt::Debug for ExactRes { fn fmt(&self, f: &mut fmt::Formatter<'_>) -> fmt::Result { write!(f, "MapEqualsChecker") } }
res_checker!(ExactRes, Option<i64>, Infallible, |_s, v| v,
  stamp_fail: |_s, _v| None::<Infallible>, check_fail: |_s, _v| None::<Infallible>);

/// Exact checker whose `check` fails with `E(k)` while the current content is `k`.
#[derive(Copy, Clone, Eq, PartialEq, Hash, Debug)]
pub struct FailWhen(pub i64);
res_checker!(FailWhen, Option<i64>, ChkErr, |_s, v| v,
  stamp_fail: |_s, _v| None::<ChkErr>, check_fail: |s, v| if v == Some(s.0) { Some(ChkErr(s.0)) } else { None });

/// Exact checker whose stamping fails with `E(k)` while the content is `k`.
#[derive(Copy, Clone, Eq, PartialEq, Hash, Debug)]
pub struct FailStampWhen(pub i64);
res_checker!(FailStampWhen, Option<i64>, ChkErr, |_s, v| v,
  stamp_fail: |s, v| if v == Some(s.0) { Some(ChkErr(s.0)) } else { None }, check_fail: |_s, _v| None::<ChkErr>);

/// Set or remove the value through a `MapWriter`.
pub fn apply_write(w: &mut MapWriter<'_, MK>, v: Option<i64>) {
  match v {
    Some(x) => { w.insert(x); }
    None => { if let Entry::Occupied(o) = w.entry() { o.remove(); } }
  }
}
