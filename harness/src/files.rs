//! lib13: the file system resource and its three checkers on real temporary files and directories
//! with explicitly set modification times.
use std::fs::{self, File};
use std::io::{Read, Write};
use std::path::PathBuf;
use std::sync::atomic::{AtomicUsize, Ordering};
use std::time::{Duration, SystemTime};

use pie::resource::file::hash_checker::HashChecker;
use pie::resource::file::{ExistsChecker, ModifiedChecker, OpenRead};
use pie::{Pie, Resource, ResourceChecker};

static COUNTER: AtomicUsize = AtomicUsize::new(0);

fn t(secs: u64) -> SystemTime { SystemTime::UNIX_EPOCH + Duration::from_secs(1_000_000_000 + secs) }
fn secs(t: SystemTime) -> u64 { t.duration_since(SystemTime::UNIX_EPOCH).unwrap().as_secs() - 1_000_000_000 }
/// seeds >= 100: uniform content (every byte `seed - 100`): files that differ only in length, or only by trailing NUL bytes
pub fn content(size: usize, seed: usize) -> Vec<u8> {
  if seed >= 100 { return vec![(seed - 100) as u8; size]; }
  (0..size).map(|i| ((seed * 31 + i * 7) % 251) as u8).collect()
}
fn sum(b: &[u8]) -> u64 { b.iter().fold(0u64, |a, x| (a * 31 + *x as u64) % 1_000_003) }

enum Stamp { E(bool), M(Option<SystemTime>), H(Option<[u8; 32]>) }

struct Ctx { dir: PathBuf, stamps: Vec<Stamp>, hashes: Vec<[u8; 32]> }

impl Ctx {
  fn path(&self, p: &str) -> Option<PathBuf> { let i: usize = p.parse().ok()?; if i > 5 { return None; } Some(self.dir.join(format!("p{}", i))) }
  fn show(&mut self, s: &Stamp) -> String {
    match s {
      Stamp::E(b) => format!("{}", b),
      Stamp::M(m) => match m { Some(x) => format!("Some({})", secs(*x)), None => "None".into() },
      Stamp::H(h) => match h {
        Some(x) => { let k = match self.hashes.iter().position(|y| y == x) { Some(k) => k, None => { self.hashes.push(*x); self.hashes.len() - 1 } }; format!("Some(h#{})", k) }
        None => "None".into(),
      },
    }
  }
}

fn set_mtime(p: &PathBuf, secs: u64) -> std::io::Result<()> { File::open(p)?.set_modified(t(secs)) }

pub fn run_lib13(lines: &[String]) -> Vec<String> {
  let dir = std::env::temp_dir().join(format!("pieverif-{}-{}", std::process::id(), COUNTER.fetch_add(1, Ordering::SeqCst)));
  let _ = fs::remove_dir_all(&dir);
  fs::create_dir_all(&dir).unwrap();
  let mut pie = Pie::default();
  let mut cx = Ctx { dir: dir.clone(), stamps: Vec::new(), hashes: Vec::new() };
  let mut out = Vec::new();
  for l in lines {
    let tk: Vec<&str> = l.split(' ').collect();
    let r: Option<String> = (|| {
      let state = pie.resource_state_mut::<PathBuf>();
      match tk.as_slice() {
        ["mkfile", p, size, seed, mt] => {
          let p = cx.path(p)?;
          if p.is_dir() { fs::remove_dir_all(&p).ok()?; }
          fs::write(&p, content(size.parse().ok()?, seed.parse().ok()?)).ok()?;
          set_mtime(&p, mt.parse().ok()?).ok()?;
          Some("ok".into())
        }
        ["mkdir", p, mt, names @ ..] => {
          let p = cx.path(p)?;
          if p.is_dir() { fs::remove_dir_all(&p).ok()?; } else if p.exists() { fs::remove_file(&p).ok()?; }
          fs::create_dir(&p).ok()?;
          for n in names { fs::write(p.join(n), b"x").ok()?; }
          set_mtime(&p, mt.parse().ok()?).ok()?;
          Some("ok".into())
        }
        ["rm", p] => { let p = cx.path(p)?; if p.is_dir() { fs::remove_dir_all(&p).ok()?; } else if p.exists() { fs::remove_file(&p).ok()?; } Some("ok".into()) }
        ["touch", p, mt] => { let p = cx.path(p)?; if p.exists() { set_mtime(&p, mt.parse().ok()?).ok()?; Some("ok".into()) } else { Some("absent".into()) } }
        ["stamp", c, route, p] => {
          let p = cx.path(p)?;
          let s = match (*c, *route) {
            ("E", "path") => Stamp::E(ExistsChecker.stamp(&p, state).ok()?),
            ("M", "path") => Stamp::M(ModifiedChecker.stamp(&p, state).ok()?),
            ("H", "path") => Stamp::H(HashChecker.stamp(&p, state).ok()?),
            ("E", "reader") => { let mut r = p.read(state).ok()?; Stamp::E(ExistsChecker.stamp_reader(&p, &mut r).ok()?) }
            ("M", "reader") => { let mut r = p.read(state).ok()?; Stamp::M(ModifiedChecker.stamp_reader(&p, &mut r).ok()?) }
            ("H", "reader") => { let mut r = p.read(state).ok()?; Stamp::H(HashChecker.stamp_reader(&p, &mut r).ok()?) }
            _ => return None,
          };
          let txt = cx.show(&s);
          cx.stamps.push(s);
          Some(format!("s{} {}", cx.stamps.len() - 1, txt))
        }
        ["wstamp", c, p, size, seed, mt, keep] => {
          let p = cx.path(p)?;
          let mut f = match Resource::write(&p, state) { Ok(f) => f, Err(e) => return Some(format!("err {:?}", std::io::ErrorKind::from(e))) };
          f.write_all(&content(size.parse().ok()?, seed.parse().ok()?)).ok()?;
          f.flush().ok()?;
          f.set_modified(t(mt.parse().ok()?)).ok()?;
          if *keep == "remove" { fs::remove_file(&p).ok()?; }
          let s = match *c {
            "E" => Stamp::E(ExistsChecker.stamp_writer(&p, f).ok()?),
            "M" => Stamp::M(ModifiedChecker.stamp_writer(&p, f).ok()?),
            "H" => Stamp::H(HashChecker.stamp_writer(&p, f).ok()?),
            _ => return None,
          };
          let txt = cx.show(&s);
          cx.stamps.push(s);
          Some(format!("s{} {}", cx.stamps.len() - 1, txt))
        }
        ["check", c, p, k] => {
          let p = cx.path(p)?;
          let k: usize = k.parse().ok()?;
          let r = match (*c, cx.stamps.get(k)?) {
            ("E", Stamp::E(s)) => ExistsChecker.check(&p, state, s).map(|x| x.is_none()),
            ("M", Stamp::M(s)) => ModifiedChecker.check(&p, state, s).map(|x| x.is_none()),
            ("H", Stamp::H(s)) => HashChecker.check(&p, state, s).map(|x| x.is_none()),
            _ => return None,
          };
          Some(match r { Ok(true) => "consistent".into(), Ok(false) => "inconsistent".into(), Err(e) => format!("error {:?}", std::io::ErrorKind::from(e)) })
        }
        // a path BELOW path p ("p/zz"): absent while p is absent or a directory (no entry is ever called zz); while p is a regular
        // file the OS answers ENOTDIR, an error other than NotFound, which the checkers must return, not swallow
        ["cstamp", c, p] => {
          let p = cx.path(p)?.join("zz");
          let r = match *c {
            "E" => ExistsChecker.stamp(&p, state).map(Stamp::E).map_err(|_| ()),
            "M" => ModifiedChecker.stamp(&p, state).map(Stamp::M).map_err(|_| ()),
            "H" => HashChecker.stamp(&p, state).map(Stamp::H).map_err(|_| ()),
            _ => return None,
          };
          match r {
            Ok(s) => { let txt = cx.show(&s); cx.stamps.push(s); Some(format!("s{} {}", cx.stamps.len() - 1, txt)) }
            Err(()) => Some("err".into()),
          }
        }
        ["ccheck", c, p, k] => {
          let p = cx.path(p)?.join("zz");
          let k: usize = k.parse().ok()?;
          let r = match (*c, cx.stamps.get(k)?) {
            ("E", Stamp::E(s)) => ExistsChecker.check(&p, state, s).map(|x| x.is_none()).map_err(|_| ()),
            ("M", Stamp::M(s)) => ModifiedChecker.check(&p, state, s).map(|x| x.is_none()).map_err(|_| ()),
            ("H", Stamp::H(s)) => HashChecker.check(&p, state, s).map(|x| x.is_none()).map_err(|_| ()),
            _ => return None,
          };
          Some(match r { Ok(true) => "consistent".into(), Ok(false) => "inconsistent".into(), Err(()) => "err".into() })
        }
        ["readafter", c, p] => {
          let p = cx.path(p)?;
          let mut r = p.read(state).ok()?;
          match *c {
            "E" => { ExistsChecker.stamp_reader(&p, &mut r).ok()?; } "M" => { ModifiedChecker.stamp_reader(&p, &mut r).ok()?; }
            "H" => { HashChecker.stamp_reader(&p, &mut r).ok()?; } _ => return None,
          }
          Some(match r { OpenRead::File(mut f, _) => { let mut b = Vec::new(); f.read_to_end(&mut b).ok()?; format!("len={} sum={}", b.len(), sum(&b)) } _ => "notfile".into() })
        }
        ["write", p, mt] => {
          let p = cx.path(p)?;
          let mt: u64 = mt.parse().ok()?;
          Some(match Resource::write(&p, state) { Ok(f) => { f.set_modified(t(mt)).ok()?; "ok".into() } Err(e) => format!("err {:?}", std::io::ErrorKind::from(e)) })
        }
        ["state", p] => {
          let p = cx.path(p)?;
          Some(if p.is_dir() {
            let mut names: Vec<String> = fs::read_dir(&p).ok()?.map(|e| e.unwrap().file_name().to_string_lossy().to_string()).collect();
            names.sort();
            format!("dir [{}] {}", names.join(","), secs(fs::metadata(&p).ok()?.modified().ok()?))
          } else if p.exists() {
            let b = fs::read(&p).ok()?;
            format!("file len={} sum={}", b.len(), sum(&b))
          } else { "absent".into() })
        }
        _ => None,
      }
    })();
    match r { Some(r) => out.push(format!("{} -> {}", l, r)), None => { out.push(format!("bad-op {}", l)); break; } }
  }
  let _ = fs::remove_dir_all(&dir);
  out
}
