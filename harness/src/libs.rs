//! Library cases: built-in output checkers (lib12), map resource and typed resource state (lib14),
//! identity of type-erased keys (lib15), EventTracker / CompositeTracker / Event helpers (lib17).
use std::cell::RefCell;
use std::collections::hash_map::Entry;
use std::collections::HashMap;
use std::fmt::Debug;
use std::panic::{catch_unwind, AssertUnwindSafe};
use std::rc::Rc;
use std::sync::Arc;

use pie::resource::map::{GetGlobalMap, MapEqualsChecker, MapKey, MapKeyObjToObj, MapValueObj};
use pie::task::{AlwaysConsistent, EqualsChecker, ErrEqualsChecker, OkEqualsChecker, ResultChecker};
use pie::tracker::event::{Event, EventTracker};
use pie::tracker::{CompositeTracker, Tracker};
use pie::trait_object::KeyObj;
use pie::verif_hooks::OutputCheckerObj;
use pie::{Context, OutputChecker, Pie, Resource, ResourceChecker, ResourceState, Task};

use crate::checkers::{enc, Out, MK};
use crate::trackers::Rec;
use crate::build::Tsk;

fn cons(b: bool) -> &'static str { if b { "consistent" } else { "inconsistent" } }

// ------------------------------------------------------------------------------------------ lib12
fn chk<C: OutputChecker<Out> + 'static>(c: C, o1: &Out, o2: &Out) -> String where C::Stamp: Debug {
  let stamp = c.stamp(o1);
  let direct = c.check(o2, &stamp).is_none();
  let obj: Box<dyn OutputCheckerObj<Out>> = Box::new(c.clone());
  let stamp_obj = obj.stamp_obj(o1);
  let via_obj = obj.check_obj(o2, stamp_obj.as_ref()).is_none();
  let via_obj_typed = obj.check_obj(o2, &stamp).is_none();
  format!("stamp={} {} obj={} objstamp={} objtyped={}", format!("{:?}", stamp).replace(' ', ""), cons(direct), cons(via_obj),
    format!("{:?}", stamp_obj).replace(' ', ""), cons(via_obj_typed))
}

/// verdicts only (direct, through the proxy with its own stamp, through the proxy with the typed stamp), for output types
/// other than `Result<i64,i64>`: zero-sized Ok payload, zero-sized error with a niche-carrying Ok payload, ...
fn chkv<O: Clone + Debug + 'static, C: OutputChecker<O> + 'static>(c: C, o1: &O, o2: &O) -> String where C::Stamp: Debug {
  let stamp = c.stamp(o1);
  let direct = c.check(o2, &stamp).is_none();
  let obj: Box<dyn OutputCheckerObj<O>> = Box::new(c.clone());
  let stamp_obj = obj.stamp_obj(o1);
  let via_obj = obj.check_obj(o2, stamp_obj.as_ref()).is_none();
  let via_obj_typed = obj.check_obj(o2, &stamp).is_none();
  format!("{} obj={} objtyped={}", cons(direct), cons(via_obj), cons(via_obj_typed))
}
fn fam2(c: u32, a: i64, b: i64) -> Option<String> {
  let e = |n: i64| -> Result<(), i64> { if n >= 0 { Ok(()) } else { Err(n) } };
  let (o1, o2) = (e(a), e(b));
  Some(match c { 0 => chkv(EqualsChecker, &o1, &o2), 1 => chkv(OkEqualsChecker, &o1, &o2), 2 => chkv(ErrEqualsChecker, &o1, &o2),
    3 => chkv(ResultChecker, &o1, &o2), 4 => chkv(AlwaysConsistent, &o1, &o2), _ => return None })
}
fn fam3(c: u32, a: i64, b: i64) -> Option<String> {
  let e = |n: i64| -> Result<bool, ()> { if n >= 0 { Ok(n % 2 == 0) } else { Err(()) } };
  let (o1, o2) = (e(a), e(b));
  Some(match c { 0 => chkv(EqualsChecker, &o1, &o2), 1 => chkv(OkEqualsChecker, &o1, &o2), 2 => chkv(ErrEqualsChecker, &o1, &o2),
    3 => chkv(ResultChecker, &o1, &o2), 4 => chkv(AlwaysConsistent, &o1, &o2), _ => return None })
}
fn fam4(c: u32, a: i64, b: i64) -> Option<String> {
  let e = |n: i64| -> Result<String, ()> { if n >= 0 { Ok(format!("s{}", n)) } else { Err(()) } };
  let (o1, o2) = (e(a), e(b));
  Some(match c { 0 => chkv(EqualsChecker, &o1, &o2), 1 => chkv(OkEqualsChecker, &o1, &o2), 2 => chkv(ErrEqualsChecker, &o1, &o2),
    3 => chkv(ResultChecker, &o1, &o2), 4 => chkv(AlwaysConsistent, &o1, &o2), _ => return None })
}

pub fn run_lib12(lines: &[String]) -> Vec<String> {
  let mut out = Vec::new();
  for l in lines {
    let t: Vec<&str> = l.split(' ').collect();
    let r: Option<String> = (|| {
      if t.len() == 4 && (t[0] == "chk2" || t[0] == "chk3" || t[0] == "chk4") {
        let (c, a, b): (u32, i64, i64) = (t[1].parse().ok()?, t[2].parse().ok()?, t[3].parse().ok()?);
        return match t[0] { "chk2" => fam2(c, a, b), "chk3" => fam3(c, a, b), _ => fam4(c, a, b) };
      }
      if t.len() != 4 || t[0] != "chk" { return None; }
      let c: u32 = t[1].parse().ok()?;
      let (o1, o2) = (enc(t[2].parse().ok()?), enc(t[3].parse().ok()?));
      Some(match c { 0 => chk(EqualsChecker, &o1, &o2), 1 => chk(OkEqualsChecker, &o1, &o2), 2 => chk(ErrEqualsChecker, &o1, &o2),
        3 => chk(ResultChecker, &o1, &o2), 4 => chk(AlwaysConsistent, &o1, &o2), _ => return None })
    })();
    match r { Some(r) => out.push(format!("{} -> {}", l, r)), None => { out.push(format!("bad-op {}", l)); return out; } }
  }
  out
}

// ------------------------------------------------------------------------------------------ lib14
#[derive(Clone, PartialEq, Eq, Hash, Debug)] pub struct KA(pub u32);
#[derive(Clone, PartialEq, Eq, Hash, Debug)] pub struct KB(pub u32);
impl MapKey for KA { type Value = i64; }
impl MapKey for KB { type Value = i64; }

fn show_map<K>(tag: &str, m: &HashMap<K, i64>, f: impl Fn(&K) -> u32) -> String {
  let mut v: Vec<(u32, i64)> = m.iter().map(|(k, v)| (f(k), *v)).collect();
  v.sort();
  format!("map{}:[{}]", tag, v.iter().map(|(k, v)| format!("{}:{}", k, v)).collect::<Vec<_>>().join(","))
}
fn show_any(b: &dyn std::any::Any) -> String {
  if let Some(n) = b.downcast_ref::<i64>() { format!("int:{}", n) }
  else if let Some(s) = b.downcast_ref::<String>() { format!("str:{}", s) }
  else if let Some(m) = b.downcast_ref::<HashMap<KA, i64>>() { show_map("A", m, |k| k.0) }
  else if let Some(m) = b.downcast_ref::<HashMap<KB, i64>>() { show_map("B", m, |k| k.0) }
  else { "unknown".into() }
}
fn parse_map<K: std::hash::Hash + Eq>(s: &str, mk: impl Fn(u32) -> K) -> Option<HashMap<K, i64>> {
  let mut m = HashMap::new();
  for kv in s.split(',').filter(|x| !x.is_empty()) { let (k, v) = kv.split_once(':')?; m.insert(mk(k.parse().ok()?), v.parse().ok()?); }
  Some(m)
}

/// typed state access for resource type R
fn state_op<R: Resource, RS: ResourceState<R>>(st: &mut RS, t: &[&str]) -> Option<String> {
  match t {
    ["get", _, "int"] => Some(st.get::<i64>().map(|n| format!("int:{}", n)).unwrap_or("none".into())),
    ["get", _, "str"] => Some(st.get::<String>().map(|n| format!("str:{}", n)).unwrap_or("none".into())),
    ["get", _, "mapA"] => Some(st.get::<HashMap<KA, i64>>().map(|m| show_map("A", m, |k| k.0)).unwrap_or("none".into())),
    ["get", _, "mapB"] => Some(st.get::<HashMap<KB, i64>>().map(|m| show_map("B", m, |k| k.0)).unwrap_or("none".into())),
    ["getmut", _, "int", d] => { let d: i64 = d.parse().ok()?; Some(match st.get_mut::<i64>() { Some(n) => { *n += d; format!("int:{}", n) } None => "none".into() }) }
    ["set", _, "int", v] => { st.set::<i64>(v.parse().ok()?); Some("ok".into()) }
    ["set", _, "str", v] => { st.set::<String>(v.to_string()); Some("ok".into()) }
    ["set", _, "mapA", v] => { st.set(parse_map(v, KA)?); Some("ok".into()) }
    ["set", _, "mapB", v] => { st.set(parse_map(v, KB)?); Some("ok".into()) }
    ["setboxed", _, "int", v] => { st.set_boxed(Box::new(v.parse::<i64>().ok()?)); Some("ok".into()) }
    ["gosd", _, "int"] => Some(format!("int:{}", st.get_or_set_default::<i64>())),
    ["gosd", _, "str"] => Some(format!("str:{}", st.get_or_set_default::<String>())),
    ["gosd", _, "mapA"] => Some(show_map("A", st.get_or_set_default::<HashMap<KA, i64>>(), |k| k.0)),
    ["gosd", _, "mapB"] => Some(show_map("B", st.get_or_set_default_mut::<HashMap<KB, i64>>(), |k| k.0)),
    ["getboxed", _] => Some(st.get_boxed().map(|b| show_any(b.as_ref())).unwrap_or("none".into())),
    _ => None,
  }
}

macro_rules! key_op_impl { ($name:ident, $K:ty) => {
fn $name<RS: ResourceState<$K>>(st: &mut RS, key: $K, t: &[&str]) -> Option<String> {
  let opt = |v: Option<i64>| v.map(|x| format!("some:{}", x)).unwrap_or("none".into());
  match t {
    ["ins", _, _, v] => { let old = st.get_global_map_mut().insert(key, v.parse().ok()?); Some(opt(old)) }
    ["rem", _, _] => { let old = st.get_global_map_mut().remove(&key); Some(opt(old)) }
    ["read", _, _] => Some(opt(key.read(st).unwrap().copied())),
    ["wins", _, _, v] => { let mut w = pie::Resource::write(&key, st).unwrap(); let old = w.insert(v.parse().ok()?); Some(opt(old)) }
    ["wget", _, _] => { let w = pie::Resource::write(&key, st).unwrap(); Some(opt(w.get().copied())) }
    ["wgetmut", _, _, d] => { let d: i64 = d.parse().ok()?; let mut w = pie::Resource::write(&key, st).unwrap(); Some(match w.get_mut() { Some(x) => { *x += d; format!("some:{}", x) } None => "none".into() }) }
    ["wrem", _, _] => { let mut w = pie::Resource::write(&key, st).unwrap(); Some(match w.entry() { Entry::Occupied(o) => format!("some:{}", o.remove()), Entry::Vacant(_) => "none".into() }) }
    ["stamp", _, _, route] => {
      let c = MapEqualsChecker;
      let s: Option<i64> = match *route {
        "0" => c.stamp(&key, st).unwrap(),
        "1" => { let mut r = key.read(st).unwrap(); ResourceChecker::<$K>::stamp_reader(&c, &key, &mut r).unwrap() }
        "2" => { let w = pie::Resource::write(&key, st).unwrap(); ResourceChecker::<$K>::stamp_writer(&c, &key, w).unwrap() }
        _ => return None,
      };
      Some(opt(s))
    }
    ["check", _, _, s] => {
      let stamp: Option<i64> = if *s == "none" { None } else { Some(s.parse().ok()?) };
      let c = MapEqualsChecker;
      let r = ResourceChecker::<$K>::check(&c, &key, st, &stamp).unwrap();
      Some(cons(r.is_none()).to_string())
    }
    _ => None,
  }
}
} }
key_op_impl!(key_op_a, KA);
key_op_impl!(key_op_b, KB);

// object flavour: MapKeyObjToObj (type-erased keys and values); zero-sized key/value types ZK2/ZK3, ZV2/ZV3
#[derive(Clone, PartialEq, Eq, Hash, Debug)] pub struct ZK2;
#[derive(Clone, PartialEq, Eq, Hash, Debug)] pub struct ZK3;
#[derive(Clone, PartialEq, Eq, Hash, Debug)] pub struct ZV2;
#[derive(Clone, PartialEq, Eq, Hash, Debug)] pub struct ZV3;
fn okey(t: u32, n: u32) -> Option<MapKeyObjToObj> {
  Some(match t { 0 => MapKeyObjToObj::from(KA(n)), 1 => MapKeyObjToObj::from(KB(n)), 2 => MapKeyObjToObj::from(ZK2), 3 => MapKeyObjToObj::from(ZK3), _ => return None })
}
fn oval(t: u32, n: u32) -> Option<Box<dyn MapValueObj>> {
  Some(match t { 0 => Box::new(n as i64), 1 => Box::new(format!("{}", n)), 2 => Box::new(ZV2), 3 => Box::new(ZV3), _ => return None })
}
fn oshow(v: Option<&Box<dyn MapValueObj>>) -> String {
  match v {
    None => "none".into(),
    Some(b) => {
      let a = b.as_ref().as_any();
      if let Some(n) = a.downcast_ref::<i64>() { format!("some:0:{}", n) }
      else if let Some(s) = a.downcast_ref::<String>() { format!("some:1:{}", s) }
      else if a.downcast_ref::<ZV2>().is_some() { "some:2:0".into() }
      else if a.downcast_ref::<ZV3>().is_some() { "some:3:0".into() }
      else { "some:?".into() }
    }
  }
}

pub fn run_lib14(lines: &[String]) -> Vec<String> {
  let mut pie = Pie::default();
  let mut out = Vec::new();
  let mut ostamps: Vec<Option<Box<dyn MapValueObj>>> = Vec::new();
  for l in lines {
    let t: Vec<&str> = l.split(' ').collect();
    let r: Option<String> = (|| {
      if t.len() < 2 { return None; }
      if t[0].starts_with('o') {
        let key = okey(t.get(1)?.parse().ok()?, t.get(2)?.parse().ok()?)?;
        let state = pie.resource_state_mut::<MapKeyObjToObj>();
        return match (t[0], t.len()) {
          ("oins", 5) => { let v = oval(t[3].parse().ok()?, t[4].parse().ok()?)?; let old = state.get_global_map_mut().insert(key, v); Some(oshow(old.as_ref())) }
          ("orem", 3) => { let old = state.get_global_map_mut().remove(&key); Some(oshow(old.as_ref())) }
          ("oread", 3) => { let v = key.read(state).ok()?; Some(oshow(v)) }
          ("ostamp", 3) => { let s = MapEqualsChecker.stamp(&key, state).ok()?; let r = format!("s{} {}", ostamps.len(), oshow(s.as_ref())); ostamps.push(s); Some(r) }
          ("ocheck", 4) => { let i: usize = t[3].parse().ok()?; let s = ostamps.get(i)?; Some(cons(MapEqualsChecker.check(&key, state, s).ok()?.is_none()).to_string()) }
          _ => None,
        };
      }
      if ["get", "getmut", "set", "setboxed", "gosd", "getboxed"].contains(&t[0]) {
        return match t[1] { "A" => state_op::<KA, _>(pie.resource_state_mut::<KA>(), &t), "B" => state_op::<KB, _>(pie.resource_state_mut::<KB>(), &t),
          "M" => state_op::<MK, _>(pie.resource_state_mut::<MK>(), &t), _ => None };
      }
      let k: u32 = t.get(2)?.parse().ok()?;
      match t[1] { "A" => key_op_a(pie.resource_state_mut::<KA>(), KA(k), &t), "B" => key_op_b(pie.resource_state_mut::<KB>(), KB(k), &t), _ => None }
    })();
    match r { Some(r) => out.push(format!("{} -> {}", l, r)), None => { out.push(format!("bad-op {}", l)); return out; } }
  }
  out
}

// ------------------------------------------------------------------------------------------ lib15
thread_local! { static XLOG: RefCell<Vec<String>> = RefCell::new(Vec::new()); }

#[derive(Clone, PartialEq, Eq, Hash)] pub struct TA(pub u32);
#[derive(Clone, PartialEq, Eq, Hash)] pub struct TB(pub u32);
impl Debug for TA { fn fmt(&self, f: &mut std::fmt::Formatter<'_>) -> std::fmt::Result { write!(f, "T({})", self.0) } }
impl Debug for TB { fn fmt(&self, f: &mut std::fmt::Formatter<'_>) -> std::fmt::Result { write!(f, "T({})", self.0) } }
#[derive(Clone, PartialEq, Eq, Hash)] pub struct RA(pub u32);
#[derive(Clone, PartialEq, Eq, Hash)] pub struct RB(pub u32);
impl Debug for RA { fn fmt(&self, f: &mut std::fmt::Formatter<'_>) -> std::fmt::Result { write!(f, "R({})", self.0) } }
impl Debug for RB { fn fmt(&self, f: &mut std::fmt::Formatter<'_>) -> std::fmt::Result { write!(f, "R({})", self.0) } }
impl MapKey for RA { type Value = i64; }
impl MapKey for RB { type Value = i64; }

/// zero-sized task types with identical (empty) hash and identical Debug text
#[derive(Clone, PartialEq, Eq, Hash)] pub struct UA;
#[derive(Clone, PartialEq, Eq, Hash)] pub struct UB;
impl Debug for UA { fn fmt(&self, f: &mut std::fmt::Formatter<'_>) -> std::fmt::Result { write!(f, "U") } }
impl Debug for UB { fn fmt(&self, f: &mut std::fmt::Formatter<'_>) -> std::fmt::Result { write!(f, "U") } }
fn body15u<C: Context>(ty: i64, ctx: &mut C) -> i64 {
  XLOG.with(|l| l.borrow_mut().push(format!("exec {} 0", ty)));
  let a = ctx.read(&RA(0), MapEqualsChecker).unwrap().copied().unwrap_or(0);
  ty * 1000 + a
}
impl Task for UA { type Output = i64; fn execute<C: Context>(&self, ctx: &mut C) -> i64 { body15u(7, ctx) } }
impl Task for UB { type Output = i64; fn execute<C: Context>(&self, ctx: &mut C) -> i64 { body15u(8, ctx) } }

fn body15<C: Context>(ty: i64, n: u32, ctx: &mut C) -> i64 {
  XLOG.with(|l| l.borrow_mut().push(format!("exec {} {}", ty, n)));
  let a = ctx.read(&RA(n), MapEqualsChecker).unwrap().copied().unwrap_or(0);
  let b = ctx.read(&RB(n), MapEqualsChecker).unwrap().copied().unwrap_or(0);
  let mut sub = 0;
  if n > 0 {
    sub += ctx.require(&TA(n - 1), EqualsChecker);
    sub += ctx.require(&TB(n - 1), EqualsChecker);
  }
  ty * 1000 + (n as i64) * 10 + a + 100 * b + 7 * sub
}
impl Task for TA { type Output = i64; fn execute<C: Context>(&self, ctx: &mut C) -> i64 { body15(0, self.0, ctx) } }
impl Task for TB { type Output = i64; fn execute<C: Context>(&self, ctx: &mut C) -> i64 { body15(1, self.0, ctx) } }

fn key15(ty: u32, n: u32) -> Option<Box<dyn KeyObj>> {
  Some(match ty { 0 => Box::new(TA(n)), 1 => Box::new(TB(n)), 2 => Box::new(Box::new(TA(n))), 3 => Box::new(Rc::new(TA(n))), 4 => Box::new(Arc::new(TA(n))),
    5 => Box::new(RA(n)), 6 => Box::new(RB(n)), 7 if n == 0 => Box::new(UA), 8 if n == 0 => Box::new(UB), _ => return None })
}

pub fn run_lib15(lines: &[String]) -> Vec<String> {
  let mut pie = Pie::default();
  let mut out = Vec::new();
  XLOG.with(|l| l.borrow_mut().clear());
  let mut i = 0;
  while i < lines.len() {
    let l = &lines[i];
    let t: Vec<&str> = l.split(' ').collect();
    let ok: Option<()> = (|| {
      match t.as_slice() {
        ["set", rty, n, v] => {
          let (n, v): (u32, i64) = (n.parse().ok()?, v.parse().ok()?);
          match *rty { "5" => { pie.resource_state_mut::<RA>().get_global_map_mut().insert(RA(n), v); } "6" => { pie.resource_state_mut::<RB>().get_global_map_mut().insert(RB(n), v); } _ => return None }
          out.push(format!("{} -> ok", l));
        }
        ["eq", t1, n1, t2, n2] => {
          let a = key15(t1.parse().ok()?, n1.parse().ok()?)?;
          let b = key15(t2.parse().ok()?, n2.parse().ok()?)?;
          out.push(format!("{} -> {} debug_equal={}", l, a.as_ref() == b.as_ref(), format!("{:?}", a) == format!("{:?}", b)));
        }
        ["session"] => {
          let mut j = i + 1;
          while j < lines.len() && lines[j] != "endsession" { j += 1; }
          if j >= lines.len() { return None; }
          out.push("session".into());
          let mut session = pie.new_session();
          for l2 in &lines[i + 1..j] {
            let t2: Vec<&str> = l2.split(' ').collect();
            let ["req", ty, n] = t2.as_slice() else { return None; };
            let (ty, n): (u32, u32) = (ty.parse().ok()?, n.parse().ok()?);
            if ty > 8 || ty == 5 || ty == 6 || ((ty == 7 || ty == 8) && n != 0) { return None; }
            let r = catch_unwind(AssertUnwindSafe(|| match ty {
              0 => session.require(&TA(n)), 1 => session.require(&TB(n)), 2 => session.require(&Box::new(TA(n))),
              3 => session.require(&Rc::new(TA(n))), 4 => session.require(&Arc::new(TA(n))),
              7 => session.require(&UA), 8 => session.require(&UB), _ => -1 }));
            XLOG.with(|x| out.extend(x.borrow_mut().drain(..)));
            match r { Ok(v) => out.push(format!("{} -> out {}", l2, v)), Err(p) => out.push(format!("{} -> abort {}", l2, crate::build::panic_kind(&p))) }
          }
          drop(session);
          let d = pie.verif_dump_store();
          out.push(format!("endsession tasks={} resources={}", d.iter().filter(|x| x.contains(" task=")).count(), d.iter().filter(|x| x.contains(" res=")).count()));
          i = j;
        }
        _ => return None,
      }
      Some(())
    })();
    if ok.is_none() { out.push(format!("bad-op {}", l)); return out; }
    i += 1;
  }
  out
}

// ------------------------------------------------------------------------------------------ lib17
fn d<T: Debug + ?Sized>(x: &T) -> String { format!("{:?}", x).replace(' ', "") }

fn ev_text(e: &Event) -> String {
  match e {
    Event::BuildStart => "build_start".into(), Event::BuildEnd => "build_end".into(),
    Event::RequireStart(x) => format!("require_start {} {} idx={}", d(&x.task), d(&x.checker), x.index),
    Event::RequireEnd(x) => format!("require_end {} {} {} {} idx={}", d(&x.task), d(&x.checker), d(&x.stamp), d(&x.output), x.index),
    Event::ReadStart(x) => format!("read_start {} {} idx={}", d(&x.resource), d(&x.checker), x.index),
    Event::ReadEnd(x) => format!("read_end {} {} {} idx={}", d(&x.resource), d(&x.checker), d(&x.stamp), x.index),
    Event::WriteStart(x) => format!("write_start {} {} idx={}", d(&x.resource), d(&x.checker), x.index),
    Event::WriteEnd(x) => format!("write_end {} {} {} idx={}", d(&x.resource), d(&x.checker), d(&x.stamp), x.index),
    Event::ExecuteStart(x) => format!("execute_start {} idx={}", d(&x.task), x.index),
    Event::ExecuteEnd(x) => format!("execute_end {} {} idx={}", d(&x.task), d(&x.output), x.index),
  }
}

pub fn run_lib17(lines: &[String]) -> Vec<String> {
  let (a, b) = (Rec::default(), Rec::default());
  let mut trk = CompositeTracker(a.clone(), CompositeTracker(EventTracker::default(), b.clone()));
  let mut out = Vec::new();
  let b01 = |x: bool| if x { "1" } else { "0" };
  for l in lines {
    let t: Vec<&str> = l.split(' ').collect();
    let ok: Option<()> = (|| {
      match t.as_slice() {
        ["call", "bs"] => trk.build_start(),
        ["call", "be"] => trk.build_end(),
        ["call", "rqs", x] => trk.require_start(&Tsk(x.parse().ok()?), &EqualsChecker),
        ["call", "rqe", x, o] => { let o = enc(o.parse().ok()?); trk.require_end(&Tsk(x.parse().ok()?), &EqualsChecker, &o, &o) }
        ["call", "rds", r] => trk.read_start(&MK(r.parse().ok()?), &MapEqualsChecker),
        ["call", "rde", r, v] => { let s: Option<i64> = if *v == "none" { None } else { Some(v.parse().ok()?) }; trk.read_end(&MK(r.parse().ok()?), &MapEqualsChecker, &s) }
        ["call", "wrs", r] => trk.write_start(&MK(r.parse().ok()?), &MapEqualsChecker),
        ["call", "wre", r, v] => { let s: Option<i64> = if *v == "none" { None } else { Some(v.parse().ok()?) }; trk.write_end(&MK(r.parse().ok()?), &MapEqualsChecker, &s) }
        ["call", "xs", x] => trk.execute_start(&Tsk(x.parse().ok()?)),
        ["call", "xe", x, o] => trk.execute_end(&Tsk(x.parse().ok()?), &enc(o.parse().ok()?)),
        ["call", "other", k, x] => {
          let (task, res, u) = (Tsk(x.parse().ok()?), MK(x.parse().ok()?), ());
          match *k {
            "0" => trk.check_task_start(&task, &AlwaysConsistent, &u), "1" => trk.check_task_end(&task, &AlwaysConsistent, &u, None),
            "2" => trk.check_resource_start(&res, &MapEqualsChecker, &u), "3" => trk.check_resource_end(&res, &MapEqualsChecker, &u, Ok(None)),
            "4" => trk.schedule_affected_by_task_start(&task), "5" => trk.check_task_require_task_start(&task, &AlwaysConsistent, &u),
            "6" => trk.check_task_require_task_end(&task, &AlwaysConsistent, &u, Some(&u)), "7" => trk.schedule_affected_by_task_end(&task),
            "8" => trk.schedule_affected_by_resource_start(&res), "9" => trk.check_task_read_resource_start(&task, &MapEqualsChecker, &u),
            "10" => trk.check_task_read_resource_end(&task, &MapEqualsChecker, &u, Ok(Some(&u))), "11" => trk.schedule_affected_by_resource_end(&res),
            "12" => trk.schedule_task(&task), _ => return None,
          }
        }
        ["helpers", x, r] => {
          let (task, res) = (Tsk(x.parse().ok()?), MK(r.parse().ok()?));
          let et = &(trk.1).0;
          for (i, e) in et.slice().iter().enumerate() {
            out.push(format!("e {} {} bs={} be={} mrs={} mre={} mds={} mde={} mws={} mwe={} ex={} exo={} mxs={} mxe={}", i, ev_text(e),
              b01(e.is_build_start()), b01(e.is_build_end()), b01(e.match_require_start(&task).is_some()), b01(e.match_require_end(&task).is_some()),
              b01(e.match_read_start(&res).is_some()), b01(e.match_read_end(&res).is_some()), b01(e.match_write_start(&res).is_some()),
              b01(e.match_write_end(&res).is_some()), b01(e.is_execute()), b01(e.is_execute_of(&task)),
              b01(e.match_execute_start(&task).is_some()), b01(e.match_execute_end(&task).is_some())));
          }
          let rng = |r: Option<std::ops::RangeInclusive<usize>>| r.map(|r| format!("{}..={}", r.start(), r.end())).unwrap_or("none".into());
          let idx = |r: Option<&usize>| r.map(|r| r.to_string()).unwrap_or("none".into());
          out.push(format!("q any_execute={} any_execute_of={} one_execute_of={} first_require_range={} first_read_range={} first_write_range={} first_execute_range={} first_read_end_index={} first_write_end_index={} first_execute_end_index={}",
            b01(et.any_execute()), b01(et.any_execute_of(&task)), b01(et.one_execute_of(&task)), rng(et.first_require_range(&task)), rng(et.first_read_range(&res)),
            rng(et.first_write_range(&res)), rng(et.first_execute_range(&task)), idx(et.first_read_end_index(&res)), idx(et.first_write_end_index(&res)), idx(et.first_execute_end_index(&task))));
          out.push(format!("composite {} n={}", if a.since(0) == b.since(0) { "same" } else { "DIFFERENT" }, a.len()));
        }
        _ => return None,
      }
      Some(())
    })();
    if ok.is_none() { out.push(format!("bad-op {}", l)); return out; }
  }
  out
}
