//! Build cases: scripted tasks interpreted against the real `pie::Context`, histories of external
//! changes, sessions (top-down requires, bottom-up builds) and from-scratch reference builds.
use std::cell::RefCell;
use std::collections::HashMap;
use std::panic::{catch_unwind, AssertUnwindSafe};
use std::rc::Rc;

use pie::resource::map::{GetGlobalMap, MapEqualsChecker};
use pie::task::{AlwaysConsistent, EqualsChecker, ErrEqualsChecker, OkEqualsChecker, ResultChecker};
use pie::tracker::event::{Event, EventTracker};
use pie::tracker::CompositeTracker;
use pie::{Context, Pie, ResourceChecker, Task};

use crate::checkers::*;
use crate::trackers::{Rec, Shared};

#[derive(Debug)]
pub enum Expr { Const(i64), Var(usize), Add(Box<Expr>, Box<Expr>), Sub(Box<Expr>, Box<Expr>), Mul(Box<Expr>, Box<Expr>),
  Lt(Box<Expr>, Box<Expr>), Eq(Box<Expr>, Box<Expr>), Mod2(Box<Expr>), IsNone(usize) }

#[derive(Debug)]
pub enum Script { Ret(Expr), Panic, Req(u32, u32, Box<Script>), Read(u32, u32, Box<Script>),
  Write(u32, u32, Option<Expr>, Box<Script>), Wrote(u32, u32, Option<Expr>, Box<Script>), If(Expr, Box<Script>, Box<Script>) }

fn parse_expr_impl<'a, 'b>(t: &'b [&'a str]) -> Option<(Expr, &'b [&'a str])> {
  match t {
    ["k", n, r @ ..] => Some((Expr::Const(n.parse().ok()?), r)),
    ["v", i, r @ ..] => Some((Expr::Var(i.parse().ok()?), r)),
    ["n", i, r @ ..] => Some((Expr::IsNone(i.parse().ok()?), r)),
    ["%", r @ ..] => { let (a, r) = parse_expr_impl(r)?; Some((Expr::Mod2(Box::new(a)), r)) }
    [op @ ("+" | "-" | "*" | "<" | "="), r @ ..] => {
      let (a, r) = parse_expr_impl(r)?;
      let (b, r) = parse_expr_impl(r)?;
      let (a, b) = (Box::new(a), Box::new(b));
      Some((match *op { "+" => Expr::Add(a, b), "-" => Expr::Sub(a, b), "*" => Expr::Mul(a, b), "<" => Expr::Lt(a, b), _ => Expr::Eq(a, b) }, r))
    }
    _ => None,
  }
}

pub fn parse_script<'a, 'b>(t: &'b [&'a str]) -> Option<(Script, &'b [&'a str])> {
  match t {
    ["ret", r @ ..] => { let (e, r) = parse_expr_impl(r)?; Some((Script::Ret(e), r)) }
    ["panic", r @ ..] => Some((Script::Panic, r)),
    ["req", x, c, r @ ..] => { let (k, r) = parse_script(r)?; Some((Script::Req(x.parse().ok()?, c.parse().ok()?, Box::new(k)), r)) }
    ["read", x, c, r @ ..] => { let (k, r) = parse_script(r)?; Some((Script::Read(x.parse().ok()?, c.parse().ok()?, Box::new(k)), r)) }
    [w @ ("write" | "wrote"), x, c, r @ ..] => {
      let (x, c): (u32, u32) = (x.parse().ok()?, c.parse().ok()?);
      let (e, r) = match r {
        ["none", r @ ..] => (None, r),
        ["some", r @ ..] => { let (e, r) = parse_expr_impl(r)?; (Some(e), r) }
        _ => return None,
      };
      let (k, r) = parse_script(r)?;
      Some((if *w == "write" { Script::Write(x, c, e, Box::new(k)) } else { Script::Wrote(x, c, e, Box::new(k)) }, r))
    }
    ["if", r @ ..] => {
      let (e, r) = parse_expr_impl(r)?;
      let (a, r) = parse_script(r)?;
      let (b, r) = parse_script(r)?;
      Some((Script::If(e, Box::new(a), Box::new(b)), r))
    }
    _ => None,
  }
}

type Env = Vec<Option<i64>>;

fn eval(e: &Expr, env: &Env) -> i64 {
  match e {
    Expr::Const(n) => *n,
    Expr::Var(i) => env.get(*i).copied().flatten().unwrap_or(0),
    Expr::Add(a, b) => eval(a, env).wrapping_add(eval(b, env)),
    Expr::Sub(a, b) => eval(a, env).wrapping_sub(eval(b, env)),
    Expr::Mul(a, b) => eval(a, env).wrapping_mul(eval(b, env)),
    Expr::Lt(a, b) => (eval(a, env) < eval(b, env)) as i64,
    Expr::Eq(a, b) => (eval(a, env) == eval(b, env)) as i64,
    Expr::Mod2(a) => eval(a, env).rem_euclid(2),
    Expr::IsNone(i) => env.get(*i).copied().flatten().is_none() as i64,
  }
}

fn oproj(c: u32, out: i64) -> Option<i64> {
  match c { 0 => Some(out), 1 => if out >= 0 { Some(out) } else { None }, 2 => if out < 0 { Some(out) } else { None },
    3 => Some((out < 0) as i64), 5 => Some(out.rem_euclid(2)), _ => None }
}
fn rproj(c: u32, v: Option<i64>) -> Option<i64> {
  match c { 1 => v.map(|x| x.rem_euclid(2)), 2 => v.map(|_| 0), 3 => None, _ => v }
}

thread_local! {
  pub static PROGRAM: RefCell<HashMap<u32, Rc<Script>>> = RefCell::new(HashMap::new());
  pub static TASKLOG: RefCell<Vec<String>> = RefCell::new(Vec::new());
}

#[derive(Clone, PartialEq, Eq, Hash, Debug)]
pub struct Tsk(pub u32);

impl Task for Tsk {
  type Output = Out;
  fn execute<C: Context>(&self, ctx: &mut C) -> Out {
    TASKLOG.with(|l| l.borrow_mut().push(format!("tl enter {}", self.0)));
    let sc = PROGRAM.with(|p| p.borrow().get(&self.0).cloned());
    let n = match sc { Some(sc) => interp(&sc, &mut Vec::new(), ctx), None => 0 };
    let out = enc(n);
    TASKLOG.with(|l| l.borrow_mut().push(format!("tl exit {} {:?}", self.0, out)));
    out
  }
}

fn read_with<C: Context, H: ResourceChecker<MK>>(ctx: &mut C, r: u32, h: H) -> Result<Option<i64>, i64> where H::Error: Code {
  match ctx.read(&MK(r), h) { Ok(v) => Ok(v.copied()), Err(e) => Err(e.code()) }
}
fn tr_read_with<C: Context, H: ResourceChecker<TR>>(ctx: &mut C, r: u32, h: H) -> Result<Option<i64>, i64> where H::Error: Code {
  match ctx.read(&TR(r), h) { Ok(v) => Ok(v), Err(e) => Err(e.code()) }
}
fn tr_write_with<C: Context, H: ResourceChecker<TR>>(ctx: &mut C, r: u32, h: H, v: Option<i64>) -> Result<(), i64> where H::Error: Code {
  ctx.write(&TR(r), h, |w| { w.set(v); Ok(()) }).map_err(|e| e.code())
}
fn tr_wrote_with<C: Context, H: ResourceChecker<TR>>(ctx: &mut C, r: u32, h: H, v: Option<i64>) -> Result<(), i64> where H::Error: Code {
  let key = TR(r);
  { let mut w = ctx.create_writer(&key).unwrap(); w.set(v); }
  ctx.written_to(&key, h).map_err(|e| e.code())
}
macro_rules! with_tr_checker {
  ($c:expr, $f:ident, $($args:expr),*) => {
    match $c {
      1 => $f($($args),*, ParityRes),
      2 => $f($($args),*, ExistsRes),
      3 => $f($($args),*, AlwaysRes),
      c if c >= 30 => $f($($args),*, FailStampWhen(c as i64 - 30)),
      c if c >= 10 => $f($($args),*, FailWhen(c as i64 - 10)),
      _ => $f($($args),*, ExactRes),
    }
  };
}
fn write_with<C: Context, H: ResourceChecker<MK>>(ctx: &mut C, r: u32, h: H, v: Option<i64>) -> Result<(), i64> where H::Error: Code {
  ctx.write(&MK(r), h, |w| { apply_write(w, v); Ok(()) }).map_err(|e| e.code())
}
fn wrote_with<C: Context, H: ResourceChecker<MK>>(ctx: &mut C, r: u32, h: H, v: Option<i64>) -> Result<(), i64> where H::Error: Code {
  let key = MK(r);
  { let mut w = ctx.create_writer(&key).unwrap(); apply_write(&mut w, v); }
  ctx.written_to(&key, h).map_err(|e| e.code())
}

macro_rules! with_rchecker {
  ($c:expr, $f:ident, $($args:expr),*) => {
    match $c {
      1 => $f($($args),*, ParityRes),
      2 => $f($($args),*, ExistsRes),
      3 => $f($($args),*, AlwaysRes),
      c if c >= 30 => $f($($args),*, FailStampWhen(c as i64 - 30)),
      c if c >= 10 => $f($($args),*, FailWhen(c as i64 - 10)),
      _ => $f($($args),*, MapEqualsChecker),
    }
  };
}
fn read_c<C: Context>(ctx: &mut C, r: u32, c: u32) -> Result<Option<i64>, i64> {
  fn go<C: Context, H: ResourceChecker<MK>>(ctx: &mut C, r: u32, h: H) -> Result<Option<i64>, i64> where H::Error: Code { read_with(ctx, r, h) }
  fn go_tr<C: Context, H: ResourceChecker<TR>>(ctx: &mut C, r: u32, h: H) -> Result<Option<i64>, i64> where H::Error: Code { tr_read_with(ctx, r, h) }
  if r >= 100 { return with_tr_checker!(c, go_tr, ctx, r); }
  with_rchecker!(c, go, ctx, r)
}
fn write_c<C: Context>(ctx: &mut C, r: u32, c: u32, v: Option<i64>, declared_after: bool) -> Result<(), i64> {
  fn go<C: Context, H: ResourceChecker<MK>>(ctx: &mut C, r: u32, v: Option<i64>, da: bool, h: H) -> Result<(), i64> where H::Error: Code {
    if da { wrote_with(ctx, r, h, v) } else { write_with(ctx, r, h, v) }
  }
  fn go_tr<C: Context, H: ResourceChecker<TR>>(ctx: &mut C, r: u32, v: Option<i64>, da: bool, h: H) -> Result<(), i64> where H::Error: Code {
    if da { tr_wrote_with(ctx, r, h, v) } else { tr_write_with(ctx, r, h, v) }
  }
  if r >= 100 { return with_tr_checker!(c, go_tr, ctx, r, v, declared_after); }
  with_rchecker!(c, go, ctx, r, v, declared_after)
}

fn interp<C: Context>(s: &Script, env: &mut Env, ctx: &mut C) -> i64 {
  match s {
    Script::Ret(e) => eval(e, env),
    Script::Panic => panic!("task panic"),
    Script::Req(t, c, k) => {
      let task = Tsk(*t);
      let out = match c {
        0 => ctx.require(&task, EqualsChecker), 1 => ctx.require(&task, OkEqualsChecker), 2 => ctx.require(&task, ErrEqualsChecker),
        3 => ctx.require(&task, ResultChecker), 5 => ctx.require(&task, ParityOut), _ => ctx.require(&task, AlwaysConsistent),
      };
      env.push(oproj(*c, dec(&out)));
      interp(k, env, ctx)
    }
    Script::Read(r, c, k) => match read_c(ctx, *r, *c) {
      Ok(v) => { CHKLOG.with(|l| l.borrow_mut().push(format!("saw {}({}) {:?}", if *r >= 100 { "TR" } else { "MK" }, r, v))); env.push(rproj(*c, v)); interp(k, env, ctx) }
      Err(e) => -(100 + e),
    },
    Script::Write(r, c, e, k) => { let v = e.as_ref().map(|e| eval(e, env)); CHKLOG.with(|l| l.borrow_mut().push(format!("writes {}({}) {:?}", if *r >= 100 { "TR" } else { "MK" }, r, v))); match write_c(ctx, *r, *c, v, false) { Ok(()) => interp(k, env, ctx), Err(e) => -(100 + e) } }
    Script::Wrote(r, c, e, k) => { let v = e.as_ref().map(|e| eval(e, env)); CHKLOG.with(|l| l.borrow_mut().push(format!("writes {}({}) {:?}", if *r >= 100 { "TR" } else { "MK" }, r, v))); match write_c(ctx, *r, *c, v, true) { Ok(()) => interp(k, env, ctx), Err(e) => -(100 + e) } }
    Script::If(e, a, b) => if eval(e, env) != 0 { interp(a, env, ctx) } else { interp(b, env, ctx) },
  }
}

// ------------------------------------------------------------------------------------------------

type Trk = CompositeTracker<Rec, CompositeTracker<Shared<EventTracker>, Rec>>;

fn d<T: std::fmt::Debug + ?Sized>(x: &T) -> String { format!("{:?}", x).replace(' ', "") }

fn et_lines(et: &EventTracker, out: &mut Vec<String>) {
  let mut mismatch = false;
  for (pos, e) in et.slice().iter().enumerate() {
    let (txt, idx) = match e {
      Event::BuildStart => ("build_start".to_string(), pos),
      Event::BuildEnd => ("build_end".to_string(), pos),
      Event::RequireStart(x) => (format!("require_start {} {}", d(&x.task), d(&x.checker)), x.index),
      Event::RequireEnd(x) => (format!("require_end {} {} {} {}", d(&x.task), d(&x.checker), d(&x.stamp), d(&x.output)), x.index),
      Event::ReadStart(x) => (format!("read_start {} {}", d(&x.resource), d(&x.checker)), x.index),
      Event::ReadEnd(x) => (format!("read_end {} {} {}", d(&x.resource), d(&x.checker), d(&x.stamp)), x.index),
      Event::WriteStart(x) => (format!("write_start {} {}", d(&x.resource), d(&x.checker)), x.index),
      Event::WriteEnd(x) => (format!("write_end {} {} {}", d(&x.resource), d(&x.checker), d(&x.stamp)), x.index),
      Event::ExecuteStart(x) => (format!("execute_start {}", d(&x.task)), x.index),
      Event::ExecuteEnd(x) => (format!("execute_end {} {}", d(&x.task), d(&x.output)), x.index),
    };
    if idx != pos { mismatch = true; }
    out.push(format!("et {} {}", pos, txt));
  }
  if mismatch { out.push("et-index-mismatch".to_string()); }
}

pub fn panic_kind(p: &Box<dyn std::any::Any + Send>) -> String {
  let msg = if let Some(s) = p.downcast_ref::<String>() { s.clone() } else if let Some(s) = p.downcast_ref::<&str>() { s.to_string() } else { "?".to_string() };
  if msg.starts_with("Cyclic task dependency") { "cyclic".into() }
  else if msg.starts_with("Hidden dependency") { "hidden".into() }
  else if msg.starts_with("Overlapping write") { "overlap".into() }
  else if msg.starts_with("BUG") { "bug".into() }
  else if msg.starts_with("task panic") { "taskPanic".into() }
  else { format!("other:{}", msg.replace('\n', " ")) }
}

fn show_fs(m: &HashMap<MK, i64>, t: &HashMap<u32, i64>) -> String {
  let mut v: Vec<(u32, i64)> = m.iter().map(|(k, v)| (k.0, *v)).chain(t.iter().map(|(k, v)| (*k, *v))).collect();
  v.sort();
  format!("[{}]", v.iter().map(|(k, v)| format!("{}:{}", k, v)).collect::<Vec<_>>().join(","))
}

struct St {
  pie: Pie<Trk>,
  rec_a: Rec,
  rec_b: Rec,
  et: Shared<EventTracker>,
  out: Vec<String>,
}

fn known_tasks(pie: &Pie<Trk>, with_output: bool) -> Vec<u32> {
  let mut v = Vec::new();
  for l in pie.verif_dump_store() {
    // rank=3 task=Tsk(3) out=Some(Ok(3)) deps=...
    let f: Vec<&str> = l.split(' ').collect();
    if f.len() > 2 && f[1].starts_with("task=Tsk(") && (!with_output || f[2].starts_with("out=Some")) {
      v.push(f[1]["task=Tsk(".len()..f[1].len() - 1].parse().unwrap());
    }
  }
  v
}

/// Runs the ops of one session (between `session` and `endsession`).
fn run_session(st: &mut St, ops: &[&String]) -> Result<(), String> {
  let rec_a = st.rec_a.clone();
  let rec_b = st.rec_b.clone();
  let et = st.et.clone();
  let known = known_tasks(&st.pie, true);
  let mut out = std::mem::take(&mut st.out);
  out.push("op session".into());
  let mut dead = false;
  let mut bad: Option<String> = None;
  let mut first = true;
  let errors_line;
  {
    let mut session = st.pie.new_session();
    let finish = |out: &mut Vec<String>, n0: usize, res: Result<String, String>| {
      for e in rec_a.since(n0) { out.push(format!("ev {}", e)); }
      TASKLOG.with(|l| out.extend(l.borrow_mut().drain(..)));
      CHKLOG.with(|l| out.extend(l.borrow_mut().drain(..).map(|x| format!("i: ck {}", x))));
      et_lines(&et.0.borrow(), out);
      out.push(if rec_a.since(0) == rec_b.since(0) { "composite same".into() } else { "composite DIFFERENT".into() });
      match res { Ok(t) => { out.push(t); false } Err(k) => { out.push(format!("abort {}", k)); true } }
    };
    for l in ops {
      let t: Vec<&str> = l.split(' ').collect();
      match t.as_slice() {
        ["req", x] => {
          let Ok(x) = x.parse::<u32>() else { bad = Some(l.to_string()); break; };
          out.push(format!("op req {}", x));
          if dead { out.push("skipped".into()); continue; }
          let n0 = rec_a.len();
          let r = catch_unwind(AssertUnwindSafe(|| session.require(&Tsk(x))));
          dead = finish(&mut out, n0, r.map(|o| format!("out {:?}", o)).map_err(|p| panic_kind(&p)));
        }
        ["retry"] => {
          // the caller caught the panic and goes on using the SAME session object
          out.push("op retry".into());
          dead = false;
        }
        ["bu", rs @ ..] => {
          let rs: Option<Vec<u32>> = rs.iter().map(|x| x.parse().ok()).collect();
          let Some(rs) = rs else { bad = Some(l.to_string()); break; };
          out.push(format!("op {}", l));
          if dead { out.push("skipped".into()); continue; }
          let n0 = rec_a.len();
          let r = catch_unwind(AssertUnwindSafe(|| {
            let mut bu = session.create_bottom_up_build();
            for r in &rs { if *r >= 100 { bu.schedule_tasks_affected_by(&TR(*r)); } else { bu.schedule_tasks_affected_by(&MK(*r)); } }
            bu.update_affected_tasks();
          }));
          dead = finish(&mut out, n0, r.map(|_| "done".to_string()).map_err(|p| panic_kind(&p)));
        }
        ["reqknown"] => {
          if !first { bad = Some(l.to_string()); break; }
          out.push("op reqknown".into());
          for x in &known {
            let n0 = rec_a.len();
            let r = catch_unwind(AssertUnwindSafe(|| session.require(&Tsk(*x))));
            out.push(format!("known {}", x));
            dead = finish(&mut out, n0, r.map(|o| format!("out {:?}", o)).map_err(|p| panic_kind(&p)));
            if dead { break; }
          }
        }
        _ => { bad = Some(l.to_string()); break; }
      }
      first = false;
    }
    errors_line = if dead { "errors n/a".to_string() } else {
      format!("errors [{}]", session.dependency_check_errors().map(|e| e.to_string()).collect::<Vec<_>>().join(","))
    };
  }
  st.out = out;
  if let Some(b) = bad { return Err(b); }
  st.out.push("op endsession".into());
  st.out.push(errors_line);
  Ok(())
}

fn tr_map(pie: &mut Pie<Trk>) -> &mut HashMap<u32, i64> {
  use pie::ResourceState;
  pie.resource_state_mut::<TR>().get_or_set_default_mut::<HashMap<u32, i64>>()
}

fn new_pie() -> (Pie<Trk>, Rec, Rec, Shared<EventTracker>) {
  let (a, b) = (Rec::default(), Rec::default());
  let et = Shared(Rc::new(RefCell::new(EventTracker::default())));
  let pie = Pie::with_tracker(CompositeTracker(a.clone(), CompositeTracker(et.clone(), b.clone())));
  (pie, a, b, et)
}

pub fn run_case(lines: &[String]) -> Vec<String> {
  PROGRAM.with(|p| p.borrow_mut().clear());
  TASKLOG.with(|l| l.borrow_mut().clear());
  CHKLOG.with(|l| l.borrow_mut().clear());
  let (pie, rec_a, rec_b, et) = new_pie();
  let mut st = St { pie, rec_a, rec_b, et, out: Vec::new() };
  let mut i = 0;
  while i < lines.len() {
    let l = &lines[i];
    let t: Vec<&str> = l.split(' ').collect();
    let ok: bool = (|| -> Option<()> {
      match t.as_slice() {
        ["task", x, rest @ ..] => {
          let x: u32 = x.parse().ok()?;
          let (sc, r) = parse_script(rest)?;
          if !r.is_empty() { return None; }
          PROGRAM.with(|p| p.borrow_mut().insert(x, Rc::new(sc)));
        }
        ["set", r, v] => {
          let (r, v): (u32, i64) = (r.parse().ok()?, v.parse().ok()?);
          if r >= 100 { tr_map(&mut st.pie).insert(r, v); } else { st.pie.resource_state_mut::<MK>().get_global_map_mut().insert(MK(r), v); }
        }
        ["del", r] => {
          let r: u32 = r.parse().ok()?;
          if r >= 100 { tr_map(&mut st.pie).remove(&r); } else { st.pie.resource_state_mut::<MK>().get_global_map_mut().remove(&MK(r)); }
        }
        ["session"] => {
          let mut j = i + 1;
          while j < lines.len() && lines[j] != "endsession" { j += 1; }
          if j >= lines.len() { return None; }
          let ops: Vec<&String> = lines[i + 1..j].iter().collect();
          if let Err(b) = run_session(&mut st, &ops) { st.out.push(format!("bad-op {}", b)); return None; }
          let trm = tr_map(&mut st.pie).clone();
          let fs = show_fs(st.pie.resource_state_mut::<MK>().get_global_map(), &trm);
          st.out.push(format!("fs {}", fs));
          for d in st.pie.verif_dump_store() { st.out.push(format!("st {}", d)); }
          i = j;
        }
        ["clean", ..] | ["cleanknown"] | ["cleannodes"] => {
          let ts: Vec<u32> = if t[0] == "cleanknown" { known_tasks(&st.pie, true) } else if t[0] == "cleannodes" { known_tasks(&st.pie, false) } else {
            let ts: Option<Vec<u32>> = t[1..].iter().map(|x| x.parse().ok()).collect();
            ts?
          };
          st.out.push(format!("op {}", l));
          st.out.push(format!("cl roots [{}]", ts.iter().map(|x| x.to_string()).collect::<Vec<_>>().join(",")));
          let fs: HashMap<MK, i64> = st.pie.resource_state_mut::<MK>().get_global_map().clone();
          let trm: HashMap<u32, i64> = tr_map(&mut st.pie).clone();
          let saved: Vec<String> = TASKLOG.with(|l| l.borrow_mut().drain(..).collect());
          let (mut pie2, _a, _b, _et) = new_pie();
          *pie2.resource_state_mut::<MK>().get_global_map_mut() = fs;
          *tr_map(&mut pie2) = trm;
          let r = catch_unwind(AssertUnwindSafe(|| {
            let mut s = pie2.new_session();
            ts.iter().map(|x| s.require(&Tsk(*x))).collect::<Vec<_>>()
          }));
          let log: Vec<String> = TASKLOG.with(|l| l.borrow_mut().drain(..).collect());
          TASKLOG.with(|l| l.borrow_mut().extend(saved));
          CHKLOG.with(|l| l.borrow_mut().clear());
          let execd: Vec<String> = log.iter().filter(|x| x.starts_with("tl enter ")).map(|x| x["tl enter ".len()..].to_string()).collect();
          st.out.push(format!("cl exec [{}]", execd.join(",")));
          match r {
            Ok(os) => st.out.push(format!("cl out [{}]", os.iter().map(|o| format!("{:?}", o)).collect::<Vec<_>>().join(","))),
            Err(p) => st.out.push(format!("cl abort {}", panic_kind(&p))),
          }
          let trm2 = tr_map(&mut pie2).clone();
          st.out.push(format!("cl fs {}", show_fs(pie2.resource_state_mut::<MK>().get_global_map(), &trm2)));
        }
        _ => return None,
      }
      Some(())
    })().is_some();
    if !ok {
      if !st.out.last().map(|x| x.starts_with("bad-op")).unwrap_or(false) { st.out.push(format!("bad-op {}", l)); }
      return st.out;
    }
    i += 1;
  }
  st.out
}
