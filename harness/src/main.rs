//! Correspondence harness: reads cases (`case <kind> <id>` … `end`) from stdin, runs each one
//! in-process against the real crates of /repo, and prints the canonical observation text.
use std::io::{self, BufRead, Write};
use std::panic::{catch_unwind, AssertUnwindSafe};

mod graph;
mod checkers;
mod trackers;
mod build;
mod libs;
mod files;

fn main() {
  // Silence panic messages (expected panics are part of the observations).
  std::panic::set_hook(Box::new(|_| {}));
  let stdin = io::stdin();
  let lines: Vec<String> = stdin.lock().lines().map(|l| l.unwrap()).collect();
  let stdout = io::stdout();
  let mut out = io::BufWriter::new(stdout.lock());
  let mut i = 0;
  while i < lines.len() {
    let toks: Vec<&str> = lines[i].split(' ').collect();
    if toks.len() == 3 && toks[0] == "case" {
      let mut j = i + 1;
      while j < lines.len() && lines[j] != "end" { j += 1; }
      let body = &lines[i + 1..j];
      writeln!(out, "case {} {}", toks[1], toks[2]).unwrap();
      let res = catch_unwind(AssertUnwindSafe(|| match toks[1] {
        "graph" => graph::run_case(body),
        "build" => build::run_case(body),
        "lib12" => libs::run_lib12(body),
        "lib14" => libs::run_lib14(body),
        "lib15" => libs::run_lib15(body),
        "lib17" => libs::run_lib17(body),
        "lib13" => files::run_lib13(body),
        _ => vec!["bad-kind".to_string()],
      }));
      match res {
        Ok(v) => for l in v { writeln!(out, "{}", l).unwrap(); },
        Err(_) => writeln!(out, "harness-panic").unwrap(),
      }
      writeln!(out, "end").unwrap();
      i = j + 1;
    } else { i += 1; }
  }
}
