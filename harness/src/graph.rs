//! Graph cases: run the operations of a case on the real `pie_graph::DAG` and print, after every
//! operation, the result and the complete public query surface in the canonical text that the
//! Lean driver prints for the model.
use std::cmp::Ordering;
use std::panic::{catch_unwind, AssertUnwindSafe};

use pie_graph::{Error, Node, DAG};

type G = DAG<i64, i64>;

fn b01(b: bool) -> &'static str { if b { "1" } else { "0" } }

fn join<T: ToString>(v: impl IntoIterator<Item = T>) -> String {
  v.into_iter().map(|x| x.to_string()).collect::<Vec<_>>().join(",")
}

pub fn dump(g: &G, ids: &[Node], out: &mut Vec<String>) {
  let idx = |n: &Node| ids.iter().position(|m| m == n).map(|i| i as i64).unwrap_or(-1);
  for (i, n) in ids.iter().enumerate() {
    if !g.contains_node(n) { continue; }
    let rank = g.iter_unsorted().find(|(_, m)| m == n).map(|(r, _)| r).unwrap();
    let data = g.get_node_data(n).unwrap();
    let outs = join(g.get_outgoing_edges(n).map(|(c, d)| format!("{}:{}", idx(c), d)));
    let ins = join(g.get_incoming_edges(n).map(|(p, d)| format!("{}:{}", idx(p), d)));
    let outn = join(g.get_outgoing_edge_nodes(n).map(|c| idx(c)));
    let inn = join(g.get_incoming_edge_nodes(n).map(|c| idx(c)));
    let outd = join(g.get_outgoing_edge_data(n));
    let ind = join(g.get_incoming_edge_data(n));
    let outnd = join(g.get_outgoing_edge_node_data(n));
    let innd = join(g.get_incoming_edge_node_data(n));
    out.push(format!("n {} rank={} data={} out=[{}] in=[{}] outn=[{}] inn=[{}] outd=[{}] ind=[{}] outnd=[{}] innd=[{}]",
      i, rank, data, outs, ins, outn, inn, outd, ind, outnd, innd));
  }
  let mat = |f: &dyn Fn(&Node, &Node) -> String, sep: &str| -> String {
    ids.iter().map(|a| ids.iter().map(|b| f(a, b)).collect::<Vec<_>>().join(sep)).collect::<Vec<_>>().join(" ")
  };
  out.push(format!("ce {}", mat(&|a, b| b01(g.contains_edge(a, b)).to_string(), "")));
  out.push(format!("ct {}", mat(&|a, b| b01(g.contains_transitive_edge(a, b)).to_string(), "")));
  out.push(format!("ed {}", mat(&|a, b| g.get_edge_data(a, b).map(|d| d.to_string()).unwrap_or("-".to_string()), ",")));
  out.push(format!("tc {}", mat(&|a, b| {
    match catch_unwind(AssertUnwindSafe(|| g.topo_cmp(a, b))) {
      Ok(Ordering::Less) => "L", Ok(Ordering::Equal) => "E", Ok(Ordering::Greater) => "G", Err(_) => "P",
    }.to_string()
  }, "")));
  for (i, n) in ids.iter().enumerate() {
    match g.descendants_unsorted(n) {
      Err(_) => out.push(format!("du {} err", i)),
      Ok(it) => {
        let mut v: Vec<(u32, i64)> = it.map(|(r, m)| (r, idx(&m))).collect();
        v.sort();
        out.push(format!("du {} [{}]", i, join(v.iter().map(|(r, m)| format!("{}:{}", r, m)))));
      }
    }
  }
  for (i, n) in ids.iter().enumerate() {
    match g.descendants(n) {
      Err(_) => out.push(format!("ds {} err", i)),
      Ok(it) => out.push(format!("ds {} [{}]", i, join(it.map(|m| idx(&m))))),
    }
  }
  let mut iu: Vec<(u32, i64)> = g.iter_unsorted().map(|(r, m)| (r, idx(&m))).collect();
  iu.sort();
  out.push(format!("iu [{}]", join(iu.iter().map(|(r, m)| format!("{}:{}", r, m)))));
  out.push(format!("len {} empty {}", g.len(), b01(g.is_empty())));
}

pub fn run_case(lines: &[String]) -> Vec<String> {
  let mut g: G = DAG::default();
  let mut ids: Vec<Node> = Vec::new();
  let mut out = Vec::new();
  let mut sparse = false;
  for l in lines {
    if l == "mode sparse" { sparse = true; continue; }
    if l == "dump" { dump(&g, &ids, &mut out); continue; }
    let toks: Vec<&str> = l.split(' ').collect();
    let num = |s: &str| s.parse::<i64>().ok();
    // An id that was never created makes the case malformed (`bad-op`), on both sides.
    let node = |s: &str, ids: &Vec<Node>| s.parse::<usize>().ok().and_then(|i| ids.get(i).copied());
    let res: Option<String> = (|| {
      match toks.as_slice() {
        ["addnode", d] => { let d = num(d)?; let n = g.add_node(d); ids.push(n); Some(format!("node {}", ids.len() - 1)) }
        ["addedge", s, t, d] => {
          let s = node(s, &ids)?; let t = node(t, &ids)?; let d = num(d)?;
          Some(match g.add_edge(s, t, d) {
            Ok(true) => "ok-new", Ok(false) => "ok-existing",
            Err(Error::CycleDetected) => "err-cycle", Err(Error::NodeMissing) => "err-missing",
          }.to_string())
        }
        ["rmedge", s, t] => {
          let s = node(s, &ids)?; let t = node(t, &ids)?;
          Some(match g.remove_edge(s, t) { Some(d) => format!("some {}", d), None => "none".to_string() })
        }
        ["rmout", s] => {
          let s = node(s, &ids)?;
          Some(match g.remove_outgoing_edges_of_node(s) {
            Some(v) => format!("some [{}]", join(v.iter().map(|(c, d)| format!("{}:{}", ids.iter().position(|m| m == c).unwrap(), d)))),
            None => "none".to_string(),
          })
        }
        ["rmnode", n] => { let n = node(n, &ids)?; Some(b01(g.remove_node(n)).to_string()) }
        ["setnode", n, d] => {
          let n = node(n, &ids)?; let d = num(d)?;
          Some(match g.get_node_data_mut(n) { Some(x) => { *x = d; "set" } None => "absent" }.to_string())
        }
        ["setedge", s, t, d] => {
          let s = node(s, &ids)?; let t = node(t, &ids)?; let d = num(d)?;
          Some(match g.get_edge_data_mut(s, t) { Some(x) => { *x = d; "set" } None => "absent" }.to_string())
        }
        _ => None,
      }
    })();
    match res {
      None => { out.push(format!("bad-op {}", l)); return out; }
      Some(r) => { out.push(format!("op {} -> {}", l, r)); if !sparse { dump(&g, &ids, &mut out); } }
    }
  }
  out
}
