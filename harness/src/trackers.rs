//! Full-fidelity recording tracker (all 23 `Tracker` methods) and a sharing wrapper that lets the
//! harness look at a tracker owned by `Pie` while a session is alive.
use std::cell::RefCell;
use std::error::Error;
use std::fmt::Debug;
use std::rc::Rc;

use pie::tracker::Tracker;
use pie::trait_object::{KeyObj, ValueObj};

fn d<T: Debug + ?Sized>(x: &T) -> String { format!("{:?}", x).replace(' ', "") }

#[derive(Clone, Default)]
pub struct Rec(pub Rc<RefCell<Vec<String>>>);
impl Rec {
  fn push(&self, s: String) { self.0.borrow_mut().push(s); }
  pub fn len(&self) -> usize { self.0.borrow().len() }
  pub fn since(&self, n: usize) -> Vec<String> { self.0.borrow()[n..].to_vec() }
}

fn cons(i: Option<&dyn Debug>) -> &'static str { if i.is_none() { "consistent" } else { "inconsistent" } }
fn rcons(i: Result<Option<&dyn Debug>, &dyn Error>) -> String {
  match i { Ok(None) => "consistent".into(), Ok(Some(_)) => "inconsistent".into(), Err(e) => format!("error({})", e.to_string().trim_start_matches("E(").trim_end_matches(')')) }
}

impl Tracker for Rec {
  fn build_start(&mut self) { self.push("build_start".into()); }
  fn build_end(&mut self) { self.push("build_end".into()); }
  fn require_start(&mut self, task: &dyn KeyObj, checker: &dyn ValueObj) { self.push(format!("require_start {} {}", d(task), d(checker))); }
  fn require_end(&mut self, task: &dyn KeyObj, checker: &dyn ValueObj, stamp: &dyn ValueObj, output: &dyn ValueObj) {
    self.push(format!("require_end {} {} {} {}", d(task), d(checker), d(stamp), d(output)));
  }
  fn read_start(&mut self, r: &dyn KeyObj, c: &dyn ValueObj) { self.push(format!("read_start {} {}", d(r), d(c))); }
  fn read_end(&mut self, r: &dyn KeyObj, c: &dyn ValueObj, s: &dyn ValueObj) { self.push(format!("read_end {} {} {}", d(r), d(c), d(s))); }
  fn write_start(&mut self, r: &dyn KeyObj, c: &dyn ValueObj) { self.push(format!("write_start {} {}", d(r), d(c))); }
  fn write_end(&mut self, r: &dyn KeyObj, c: &dyn ValueObj, s: &dyn ValueObj) { self.push(format!("write_end {} {} {}", d(r), d(c), d(s))); }
  fn check_task_start(&mut self, t: &dyn KeyObj, c: &dyn ValueObj, s: &dyn ValueObj) { self.push(format!("check_task_start {} {} {}", d(t), d(c), d(s))); }
  fn check_task_end(&mut self, t: &dyn KeyObj, c: &dyn ValueObj, s: &dyn ValueObj, i: Option<&dyn Debug>) {
    self.push(format!("check_task_end {} {} {} {}", d(t), d(c), d(s), cons(i)));
  }
  fn check_resource_start(&mut self, r: &dyn KeyObj, c: &dyn ValueObj, s: &dyn ValueObj) { self.push(format!("check_resource_start {} {} {}", d(r), d(c), d(s))); }
  fn check_resource_end(&mut self, r: &dyn KeyObj, c: &dyn ValueObj, s: &dyn ValueObj, i: Result<Option<&dyn Debug>, &dyn Error>) {
    self.push(format!("check_resource_end {} {} {} {}", d(r), d(c), d(s), rcons(i)));
  }
  fn execute_start(&mut self, t: &dyn KeyObj) { self.push(format!("execute_start {}", d(t))); }
  fn execute_end(&mut self, t: &dyn KeyObj, o: &dyn ValueObj) { self.push(format!("execute_end {} {}", d(t), d(o))); }
  fn schedule_affected_by_task_start(&mut self, t: &dyn KeyObj) { self.push(format!("schedule_affected_by_task_start {}", d(t))); }
  fn check_task_require_task_start(&mut self, t: &dyn KeyObj, c: &dyn ValueObj, s: &dyn ValueObj) { self.push(format!("check_task_require_task_start {} {} {}", d(t), d(c), d(s))); }
  fn check_task_require_task_end(&mut self, t: &dyn KeyObj, c: &dyn ValueObj, s: &dyn ValueObj, i: Option<&dyn Debug>) {
    self.push(format!("check_task_require_task_end {} {} {} {}", d(t), d(c), d(s), cons(i)));
  }
  fn schedule_affected_by_task_end(&mut self, t: &dyn KeyObj) { self.push(format!("schedule_affected_by_task_end {}", d(t))); }
  fn schedule_affected_by_resource_start(&mut self, r: &dyn KeyObj) { self.push(format!("schedule_affected_by_resource_start {}", d(r))); }
  fn check_task_read_resource_start(&mut self, t: &dyn KeyObj, c: &dyn ValueObj, s: &dyn ValueObj) { self.push(format!("check_task_read_resource_start {} {} {}", d(t), d(c), d(s))); }
  fn check_task_read_resource_end(&mut self, t: &dyn KeyObj, c: &dyn ValueObj, s: &dyn ValueObj, i: Result<Option<&dyn Debug>, &dyn Error>) {
    self.push(format!("check_task_read_resource_end {} {} {} {}", d(t), d(c), d(s), rcons(i)));
  }
  fn schedule_affected_by_resource_end(&mut self, r: &dyn KeyObj) { self.push(format!("schedule_affected_by_resource_end {}", d(r))); }
  fn schedule_task(&mut self, t: &dyn KeyObj) { self.push(format!("schedule_task {}", d(t))); }
}

/// Delegating wrapper: `Pie` owns a clone of the `Rc`, the harness keeps the other.
pub struct Shared<T>(pub Rc<RefCell<T>>);
impl<T> Clone for Shared<T> { fn clone(&self) -> Self { Shared(self.0.clone()) } }

impl<T: Tracker> Tracker for Shared<T> {
  fn build_start(&mut self) { self.0.borrow_mut().build_start() }
  fn build_end(&mut self) { self.0.borrow_mut().build_end() }
  fn require_start(&mut self, a: &dyn KeyObj, b: &dyn ValueObj) { self.0.borrow_mut().require_start(a, b) }
  fn require_end(&mut self, a: &dyn KeyObj, b: &dyn ValueObj, c: &dyn ValueObj, e: &dyn ValueObj) { self.0.borrow_mut().require_end(a, b, c, e) }
  fn read_start(&mut self, a: &dyn KeyObj, b: &dyn ValueObj) { self.0.borrow_mut().read_start(a, b) }
  fn read_end(&mut self, a: &dyn KeyObj, b: &dyn ValueObj, c: &dyn ValueObj) { self.0.borrow_mut().read_end(a, b, c) }
  fn write_start(&mut self, a: &dyn KeyObj, b: &dyn ValueObj) { self.0.borrow_mut().write_start(a, b) }
  fn write_end(&mut self, a: &dyn KeyObj, b: &dyn ValueObj, c: &dyn ValueObj) { self.0.borrow_mut().write_end(a, b, c) }
  fn check_task_start(&mut self, a: &dyn KeyObj, b: &dyn ValueObj, c: &dyn ValueObj) { self.0.borrow_mut().check_task_start(a, b, c) }
  fn check_task_end(&mut self, a: &dyn KeyObj, b: &dyn ValueObj, c: &dyn ValueObj, i: Option<&dyn Debug>) { self.0.borrow_mut().check_task_end(a, b, c, i) }
  fn check_resource_start(&mut self, a: &dyn KeyObj, b: &dyn ValueObj, c: &dyn ValueObj) { self.0.borrow_mut().check_resource_start(a, b, c) }
  fn check_resource_end(&mut self, a: &dyn KeyObj, b: &dyn ValueObj, c: &dyn ValueObj, i: Result<Option<&dyn Debug>, &dyn Error>) { self.0.borrow_mut().check_resource_end(a, b, c, i) }
  fn execute_start(&mut self, a: &dyn KeyObj) { self.0.borrow_mut().execute_start(a) }
  fn execute_end(&mut self, a: &dyn KeyObj, b: &dyn ValueObj) { self.0.borrow_mut().execute_end(a, b) }
  fn schedule_affected_by_task_start(&mut self, a: &dyn KeyObj) { self.0.borrow_mut().schedule_affected_by_task_start(a) }
  fn check_task_require_task_start(&mut self, a: &dyn KeyObj, b: &dyn ValueObj, c: &dyn ValueObj) { self.0.borrow_mut().check_task_require_task_start(a, b, c) }
  fn check_task_require_task_end(&mut self, a: &dyn KeyObj, b: &dyn ValueObj, c: &dyn ValueObj, i: Option<&dyn Debug>) { self.0.borrow_mut().check_task_require_task_end(a, b, c, i) }
  fn schedule_affected_by_task_end(&mut self, a: &dyn KeyObj) { self.0.borrow_mut().schedule_affected_by_task_end(a) }
  fn schedule_affected_by_resource_start(&mut self, a: &dyn KeyObj) { self.0.borrow_mut().schedule_affected_by_resource_start(a) }
  fn check_task_read_resource_start(&mut self, a: &dyn KeyObj, b: &dyn ValueObj, c: &dyn ValueObj) { self.0.borrow_mut().check_task_read_resource_start(a, b, c) }
  fn check_task_read_resource_end(&mut self, a: &dyn KeyObj, b: &dyn ValueObj, c: &dyn ValueObj, i: Result<Option<&dyn Debug>, &dyn Error>) { self.0.borrow_mut().check_task_read_resource_end(a, b, c, i) }
  fn schedule_affected_by_resource_end(&mut self, a: &dyn KeyObj) { self.0.borrow_mut().schedule_affected_by_resource_end(a) }
  fn schedule_task(&mut self, a: &dyn KeyObj) { self.0.borrow_mut().schedule_task(a) }
}
